(* SafeFacts.v -- (C13) the token-level assembler + linker model never reaches a crash outcome other than
   running out of its own fuel: every Rust panic site written into the model (unwrap on the evaluation
   stack, arithmetic overflow, slice index of a link patch, row-template field index) is unreachable
   from run_asm, for every token sequence.  Invariant: every lazily evaluated definition in the symbol
   table and every link expression is parser output (compiled code), and every link's patch range lies
   inside the bytes emitted so far. *)
From Az65 Require Import Base Token Expr CSpec ExprFacts ExprParse ExprParseFacts Linker Asm AsmFacts.
Require Import Lia.

(* ---- outcomes that may only fail by fuel ------------------------------------------------------ *)
Definition good {A} (P : A -> Prop) (r : outcome A) : Prop :=
  match r with Ok x => P x | Diag _ => True | Crash c => c = CkFuel end.

Lemma good_weaken {A} (P Q : A -> Prop) r : (forall x, P x -> Q x) -> good P r -> good Q r.
Proof. intros H. destruct r; cbn; auto. Qed.

(* ---- the expression parser only ever crashes by fuel -------------------------------------------- *)
Definition pf (p : list token -> pres) : Prop := forall ts, good (fun _ => True) (p ts).

Lemma binloop_pf sub : pf sub -> forall n ops lhs ts, good (fun _ => True) (binloop n ops sub lhs ts).
Proof.
  intros Hs. induction n as [|n IH]; intros ops lhs ts; destruct ts as [|t r]; cbn; auto;
    destruct t; cbn; auto; destruct (ops s); cbn; auto.
  pose proof (Hs r) as H. destruct (sub r) as [[rhs r']| |]; cbn in *; auto.
Qed.

Lemma plevel_pf ops sub : pf sub -> pf (plevel ops sub).
Proof.
  intros Hs ts. unfold plevel. pose proof (Hs ts) as H.
  destruct (sub ts) as [[l r]| |]; cbn in *; auto. apply binloop_pf. exact Hs.
Qed.

Lemma chain_pf ls base : pf base -> pf (chain ls base).
Proof. intro Hb. induction ls as [|o ls IH]; cbn; auto. apply plevel_pf. exact IH. Qed.

Lemma p0_of_pf p : pf p -> pf (p0_of p).
Proof.
  intros Hp ts. unfold p0_of.
  pose proof (chain_pf levels p Hp) as H1. set (q := chain levels p) in *.
  pose proof (H1 ts) as Ha. destruct (q ts) as [[c r]| |]; cbn [good] in *; auto.
  destruct r as [|t r1]; cbn [good]; auto. destruct t; cbn [good]; auto. destruct s; cbn [good]; auto.
  pose proof (H1 r1) as Hb. destruct (q r1) as [[a r2]| |]; cbn [good] in *; auto.
  destruct r2 as [|t r3]; cbn [good]; auto. destruct t; cbn [good]; auto. destruct s; cbn [good]; auto.
  pose proof (H1 r3) as Hc. destruct (q r3) as [[b r4]| |]; cbn [good] in *; auto.
Qed.

Lemma p11_pf : forall f, pf (p11 f).
Proof.
  induction f as [|f IH]; intro ts; cbn [p11 good]; auto.
  destruct ts as [|t r]; cbn [good]; auto.
  destruct t; cbn [good]; auto.
  - (* directive *) destruct d; cbn [good]; auto; destruct r as [|t2 r2]; cbn [good]; auto; destruct t2; cbn [good]; auto.
  - (* symbol *)
    destruct s; cbn [unop_of_sym good]; auto;
      try (pose proof (IH r) as Hr; destruct (p11 f r) as [[e r']| |]; cbn [good] in *; auto; fail).
    pose proof (p0_of_pf (p11 f) IH r) as Hr.
    destruct (p0_of (p11 f) r) as [[e r']| |]; cbn [good] in *; auto.
    destruct r' as [|t r'']; cbn [good]; auto. destruct t; cbn [good]; auto. destruct s; cbn [good]; auto.
Qed.

Lemma ptree_pf : pf ptree.
Proof. intro ts. unfold ptree. apply p0_of_pf. apply p11_pf. Qed.

Lemma qualify_no_crash ns k s c : qualify ns k s <> Crash c.
Proof. unfold qualify. destruct k; try discriminate. destruct ns; discriminate. Qed.

Lemma resolve_no_crash cx e c : resolve cx e <> Crash c.
Proof.
  induction e as [v| |k s|k s|k s|o a IHa|o a IHa b IHb|c0 IHc a IHa b IHb]; cbn [resolve]; try discriminate.
  - destruct (qualify (c_ns cx) k s) eqn:Q; cbn [bind]; try (destruct (eval_top _ _)); try discriminate.
    exfalso; eapply qualify_no_crash; eauto.
  - destruct (qualify (c_ns cx) k s) eqn:Q; cbn [bind]; try (destruct (solved_now _ _)); try discriminate.
    exfalso; eapply qualify_no_crash; eauto.
  - destruct (qualify (c_ns cx) k s) eqn:Q; cbn [bind]; try discriminate. exfalso; eapply qualify_no_crash; eauto.
  - destruct (resolve cx a); cbn [bind]; try discriminate; auto.
  - destruct (resolve cx a); cbn [bind]; try discriminate; auto.
    destruct (resolve cx b); cbn [bind]; try discriminate; auto.
  - destruct (resolve cx c0); cbn [bind]; try discriminate; auto.
    destruct (resolve cx a); cbn [bind]; try discriminate; auto.
    destruct (resolve cx b); cbn [bind]; try discriminate; auto.
Qed.

Lemma pexpr_good cx ts :
  good (fun x => exists c, fst x = compile c) (pexpr cx ts).
Proof.
  unfold pexpr. pose proof (ptree_pf ts) as H.
  destruct (ptree ts) as [[e r]| |]; cbn in *; auto.
  destruct (resolve cx e) as [c| |c] eqn:R; cbn; auto.
  - exists c. reflexivity.
  - exfalso. eapply resolve_no_crash; eauto.
Qed.

(* ---- the invariant --------------------------------------------------------------------------- *)
Definition width (k : lkind) : nat :=
  match k with LByte | LSByte => 1 | LWord => 2 | LSpace n => n | LAssert => 0 end.
Definition compiled (ns : list node) : Prop := exists c, ns = compile c.
Definition link_ok (n : nat) (l : link) : Prop :=
  compiled (l_expr l) /\ (l_off l + width (l_kind l) <= n)%nat.
Definition Inv (s : astate) : Prop :=
  wf_st (a_st s) /\ Forall (link_ok (length (a_data s))) (a_links s).

Lemma inv_core s s' : same_core s s' -> Inv s -> Inv s'.
Proof.
  intros [Hst [Hd [Hl _]]] [W L]. unfold Inv. rewrite Hst, Hd, Hl. auto.
Qed.

Lemma in_remove k x st : In x (st_remove k st) -> In x st.
Proof.
  induction st as [|[k' e] st IH]; cbn; [auto|].
  destruct (bytes_eqb k' k); [intro H; right; auto|].
  intros [E|H]; [left; exact E|right; auto].
Qed.

Lemma wf_remove k st : wf_st st -> wf_st (st_remove k st).
Proof. intros H s en ex Hin. apply (H s en ex). eapply in_remove; eauto. Qed.

Lemma wf_insert_value k v m st : wf_st st -> wf_st (st_insert k {| e_sym := SValue v; e_meta := m |} st).
Proof.
  intros H s en ex [E|Hin] Hs.
  - inversion E; subst. discriminate.
  - eapply (wf_remove k st H); eauto.
Qed.

Lemma wf_insert_expr k ns m st : compiled ns -> wf_st st -> wf_st (st_insert k {| e_sym := SExpr ns; e_meta := m |} st).
Proof.
  intros [c ->] H s en ex [E|Hin] Hs.
  - inversion E; subst. cbn in Hs. inversion Hs; subst. exists c. reflexivity.
  - eapply (wf_remove k st H); eauto.
Qed.

Lemma link_ok_mono n m l : (n <= m)%nat -> link_ok n l -> link_ok m l.
Proof. intros Hle [C R]. split; [exact C|lia]. Qed.

Lemma inv_append s bs : Inv s -> Inv (w_data s (a_data s ++ bs)).
Proof.
  intros [W L]. split; [exact W|]. cbn. rewrite app_length.
  eapply Forall_impl; [|exact L]. intros l Hl. eapply link_ok_mono; [|exact Hl]. lia.
Qed.

Lemma inv_push_link s k ns ph :
  Inv s -> compiled ns -> length ph = width k -> Inv (push_link s k ns ph).
Proof.
  intros [W L] C Hw. split; [exact W|]. unfold push_link. cbn. rewrite app_length.
  apply Forall_app. split.
  - eapply Forall_impl; [|exact L]. intros l Hl. eapply link_ok_mono; [|exact Hl]. lia.
  - constructor; [|constructor]. split; cbn; [exact C|lia].
Qed.

Lemma inv_emit s h bs : Inv s -> Inv (w_data (w_here s h) (a_data s ++ bs)).
Proof. intro H. apply (inv_append (w_here s h) bs). exact H. Qed.
Lemma inv_emit_link s h k ns ph :
  Inv s -> compiled ns -> length ph = width k -> Inv (push_link (w_here s h) k ns ph).
Proof. intros H C W. apply (inv_push_link (w_here s h)); auto. Qed.

(* setters that leave table, data and links alone *)
Lemma inv_w_toks s t : Inv s -> Inv (w_toks s t). Proof. intro H; exact H. Qed.
Lemma inv_w_here s t : Inv s -> Inv (w_here s t). Proof. intro H; exact H. Qed.
Lemma inv_w_refs s t : Inv s -> Inv (w_refs s t). Proof. intro H; exact H. Qed.
Lemma inv_w_ns s t : Inv s -> Inv (w_ns s t). Proof. intro H; exact H. Qed.
Lemma inv_w_code s t : Inv s -> Inv (w_code s t). Proof. intro H; exact H. Qed.
Lemma inv_w_meta s t : Inv s -> Inv (w_meta s t). Proof. intro H; exact H. Qed.
Lemma inv_w_if s t : Inv s -> Inv (w_if s t). Proof. intro H; exact H. Qed.
Lemma inv_advance s : Inv s -> Inv (advance s). Proof. intro H; exact H. Qed.
Lemma inv_w_st s st : Inv s -> wf_st st -> Inv (w_st s st).
Proof. intros [_ L] W. split; [exact W|exact L]. Qed.

(* ---- the expression layer --------------------------------------------------------------------- *)
Lemma expr_good s :
  Inv s -> good (fun x => Inv (snd x) /\ same_core s (snd x) /\ compiled (fst x)) (expr s).
Proof.
  intro HI. unfold expr. pose proof (pexpr_good (ctx_of s) (a_toks s)) as H.
  destruct (pexpr (ctx_of s) (a_toks s)) as [[ns r]| |]; cbn [good fst snd] in *; auto.
  split; [exact HI|]. split; [repeat split|exact H].
Qed.

Lemma eval_compiled st ns c : wf_st st -> compiled ns -> eval_top st ns <> ECrash c.
Proof. intros W [e ->]. apply eval_total. exact W. Qed.

Lemma const_expr_good s :
  Inv s -> good (fun x => Inv (snd x) /\ same_core s (snd x)) (const_expr s).
Proof.
  intro HI. unfold const_expr. pose proof (expr_good s HI) as H.
  destruct (expr s) as [[ns s1]| |]; cbn [good fst snd] in *; auto.
  destruct H as [H1 [H2 H3]].
  destruct (eval_top (a_st s1) ns) eqn:E; cbn [good fst snd]; auto.
  exfalso. eapply eval_compiled; [apply H1|exact H3|exact E].
Qed.

Lemma expect_sym_good y s : Inv s -> good (fun s' => Inv s' /\ same_core s s') (expect_sym y s).
Proof.
  intro HI. unfold expect_sym. destruct (is_sym y (peek s)); cbn [good]; auto.
  split; [exact HI|repeat split].
Qed.

(* ---- the linker ---------------------------------------------------------------------------------- *)
Lemma set_nth_some b : forall d off, (off < length d)%nat ->
  exists d', set_nth off b d = Some d' /\ length d' = length d.
Proof.
  induction d as [|x d IH]; intros off H; cbn [length] in H; [lia|].
  destruct off as [|k]; cbn [set_nth]; [eexists; split; reflexivity|].
  destruct (IH k ltac:(lia)) as [d' [E L]]. rewrite E. eexists; split; [reflexivity|cbn [length]; lia].
Qed.

Lemma fill_some b : forall len off d, (off + len <= length d)%nat ->
  exists d', fill off len b d = Some d' /\ length d' = length d.
Proof.
  induction len as [|len IH]; intros off d H; cbn [fill]; [eexists; split; reflexivity|].
  destruct (set_nth_some b d off ltac:(lia)) as [d1 [E L]]. rewrite E.
  destruct (IH (S off) d1 ltac:(lia)) as [d2 [E2 L2]]. exists d2. split; [exact E2|lia].
Qed.

Lemma apply_link_good st l d :
  wf_st st -> link_ok (length d) l -> good (fun d' => length d' = length d) (apply_link st l d).
Proof.
  intros W [C R]. unfold apply_link.
  destruct (eval_top st (l_expr l)) eqn:E; cbn [good]; auto.
  2: { exfalso. eapply eval_compiled; eauto. }
  destruct (l_kind l) eqn:K; cbn [width] in R.
  - destruct (fits_u8 v); cbn [good]; auto.
    destruct (set_nth_some (byte_of v) d (l_off l) ltac:(lia)) as [d' [E1 L1]]. rewrite E1. exact L1.
  - destruct (fits_i8 v); cbn [good]; auto.
    destruct (set_nth_some (byte_of v) d (l_off l) ltac:(lia)) as [d' [E1 L1]]. rewrite E1. exact L1.
  - destruct (fits_u16 v); cbn [good]; auto.
    destruct (set_nth_some (byte_of v) d (l_off l) ltac:(lia)) as [d1 [E1 L1]]. rewrite E1.
    destruct (set_nth_some (Z.to_N (u16 v / 256)) d1 (S (l_off l)) ltac:(lia)) as [d2 [E2 L2]]. rewrite E2.
    cbn [of_patch good]. lia.
  - destruct (fits_u8 v); cbn [good]; auto.
    destruct (fill_some (byte_of v) len (l_off l) d ltac:(lia)) as [d' [E1 L1]]. rewrite E1. exact L1.
  - destruct (v =? 0)%Z; cbn [good]; auto.
Qed.

Lemma apply_links_good st : forall ls d,
  wf_st st -> Forall (link_ok (length d)) ls -> good (fun _ => True) (apply_links st ls d).
Proof.
  induction ls as [|l ls IH]; intros d W F; cbn [apply_links good]; auto.
  inversion F as [|? ? Hl Hr]; subst.
  pose proof (apply_link_good st l d W Hl) as H.
  destruct (apply_link st l d) as [d'| |]; cbn [good] in *; auto.
  apply IH; auto. rewrite H. exact Hr.
Qed.

Lemma check_refs_good st : wf_st st -> forall refs, good (fun _ => True) (check_refs st refs).
Proof.
  intros W. induction refs as [|r refs IH]; cbn [check_refs good]; auto.
  destruct (lookup st r) as [en|] eqn:Lk; cbn [good]; auto.
  destruct (e_sym en) as [v|ex] eqn:Es; auto.
  destruct (eval_top st ex) eqn:E; cbn [good]; auto.
  exfalso. eapply eval_compiled; [exact W| |exact E].
  destruct (W r en ex (lookup_in _ _ _ Lk) Es) as [ce ->]. exists ce. reflexivity.
Qed.

Lemma link_all_good st refs ls d :
  wf_st st -> Forall (link_ok (length d)) ls -> good (fun _ => True) (link_all st refs ls d).
Proof.
  intros W F. unfold link_all. pose proof (check_refs_good st W refs) as H.
  destruct (check_refs st refs); cbn [good] in *; auto. apply apply_links_good; auto.
Qed.

(* ---- statements ------------------------------------------------------------------------------------ *)
Ltac use_expr s HI ns s1 H1 HC HN :=
  let H := fresh "Hx" in
  pose proof (expr_good s HI) as H;
  destruct (expr s) as [[ns s1]| |]; cbn [good fst snd] in H |- *; auto; destruct H as [H1 [HC HN]].
Ltac use_const s HI v s1 H1 HC :=
  let H := fresh "Hx" in
  pose proof (const_expr_good s HI) as H;
  destruct (const_expr s) as [[v s1]| |]; cbn [good fst snd] in H |- *; auto; destruct H as [H1 HC].
Ltac use_eval s1 ns H1 HN v :=
  let E := fresh "Ev" in
  destruct (eval_top (a_st s1) ns) as [v| |?cc] eqn:E; cbn [good];
  [ | | exfalso; eapply eval_compiled; [apply H1|exact HN|exact E] ].

Section Steps.
  Variable arch_parse : N -> astate -> outcome astate.
  Variable incbin_file : bytes -> option (list N).
  Hypothesis arch_good : forall id s, Inv s -> good Inv (arch_parse id s).

  Notation statement := (statement arch_parse incbin_file).
  Notation parse_all := (parse_all arch_parse incbin_file).

  Lemma db_items_good : forall fuel s, Inv s -> good Inv (db_items fuel s).
  Proof.
    induction fuel as [|f IH]; intros s HI; cbn [db_items good]; auto.
    assert (Hafter : forall s1, Inv s1 ->
              good Inv (if is_sym SyComma (peek s1) then db_items f (advance s1) else Ok s1)).
    { intros s1 H1. destruct (is_sym SyComma (peek s1)); [apply IH; exact H1|exact H1]. }
    destruct (peek s) as [[| |str| | | | | | |]|] eqn:Hp.
    3: { destruct (a_here (advance s) + Z.of_nat (length str) >? TOP)%Z; cbn [good]; auto.
         apply Hafter. apply inv_emit. exact HI. }
    all: use_expr s HI ns s1 H1 HC HN; use_eval s1 ns H1 HN val.
    all: try (destruct (negb (fits_u8 val)); cbn [good]; auto).
    all: destruct (a_here s1 + 1 >? TOP)%Z; cbn [good]; auto; apply Hafter.
    all: first [ apply inv_emit; exact H1
               | apply inv_emit_link; [exact H1|exact HN|reflexivity] ].
  Qed.

  Lemma dw_items_good : forall fuel s, Inv s -> good Inv (dw_items fuel s).
  Proof.
    induction fuel as [|f IH]; intros s HI; cbn [dw_items good]; auto.
    assert (Hafter : forall s1, Inv s1 ->
              good Inv (if is_sym SyComma (peek s1) then dw_items f (advance s1) else Ok s1)).
    { intros s1 H1. destruct (is_sym SyComma (peek s1)); [apply IH; exact H1|exact H1]. }
    use_expr s HI ns s1 H1 HC HN; use_eval s1 ns H1 HN val.
    - destruct (negb (fits_u16 val)); cbn [good]; auto.
      destruct (a_here s1 + 2 >? TOP)%Z; cbn [good]; auto. apply Hafter. apply inv_emit. exact H1.
    - destruct (a_here s1 + 2 >? TOP)%Z; cbn [good]; auto. apply Hafter.
      apply inv_emit_link; [exact H1|exact HN|reflexivity].
  Qed.

  Lemma meta_pairs_good : forall fuel s acc, Inv s -> good Inv (meta_pairs fuel s acc).
  Proof.
    induction fuel as [|f IH]; intros s acc HI; cbn [meta_pairs good]; auto.
    destruct (a_toks s) as [|t1 r1]; cbn [good]; auto.
    destruct t1; cbn [good]; auto. destruct r1 as [|t2 r2]; cbn [good]; auto.
    destruct t2; cbn [good]; auto.
    destruct (is_sym SyComma (peek (w_toks s r2))); [apply IH; exact HI|exact HI].
  Qed.

  Lemma struct_body_good : forall fuel name size s,
    Inv s -> good (fun x => Inv (snd x)) (struct_body fuel name size s).
  Proof.
    induction fuel as [|f IH]; intros name size s HI; cbn [struct_body good]; auto.
    destruct (a_toks s) as [|t r] eqn:Ht; cbn [good]; auto.
    destruct t as [| | | | |d| | | |k field]; cbn [good]; auto.
    - destruct d; cbn [good]; auto.
      all: destruct r as [|t2 r2]; cbn [good]; auto.
      all: use_const (w_toks s (t2 :: r2)) HI v1 s1 H1 HC.
      all: try (destruct (v1 <? 2)%Z; cbn [good]; auto).
      all: apply IH; exact H1.
    - destruct k; cbn [good]; auto.
      destruct (defined (a_st s) (name ++ [46%N] ++ field)); cbn [good]; auto.
      set (s0 := if is_sym SyColon (peek (w_toks s r)) then advance (w_toks s r) else w_toks s r).
      assert (H0 : Inv s0) by (unfold s0; destruct (is_sym SyColon (peek (w_toks s r))); exact HI).
      destruct (a_toks s0) as [|t2 r2] eqn:Ht0; cbn [good]; auto.
      assert (Hexpr : good (fun x => Inv (snd x))
                (match const_expr s0 with
                 | Ok (fs, s1) =>
                   struct_body f name (wrap32 (size + fs))
                     (w_st s1 (st_insert (name ++ [46%N] ++ field) {| e_sym := SValue size; e_meta := size_meta fs |} (a_st s1)))
                 | Diag k => Diag k
                 | Crash c => Crash c
                 end)).
      { use_const s0 H0 fs s1 H1 HC. apply IH. apply inv_w_st; [exact H1|]. apply wf_insert_value. apply H1. }
      destruct t2; try exact Hexpr.
      destruct d; try exact Hexpr.
      + apply IH. apply inv_w_st; [exact H0|]. apply wf_insert_value. apply H0.
      + apply IH. apply inv_w_st; [exact H0|]. apply wf_insert_value. apply H0.
  Qed.

  Lemma def_name_no_crash s k v c : def_name s k v <> Crash c.
  Proof. unfold def_name. apply qualify_no_crash. Qed.

  Lemma define_good s dup wm : Inv s -> good Inv (define s dup wm).
  Proof.
    intro HI. unfold define.
    destruct (a_toks s) as [|t r]; cbn [good]; auto.
    destruct t; cbn [good]; auto.
    destruct (def_name s k s0) as [direct| |c] eqn:Hd; cbn [good]; auto.
    2: { exfalso. eapply def_name_no_crash; eauto. }
    destruct (dup && defined (a_st s) direct); cbn [good]; auto.
    pose proof (expect_sym_good SyComma (w_toks s r) HI) as He.
    destruct (expect_sym SyComma (w_toks s r)) as [s1| |]; cbn [good] in He |- *; auto.
    destruct He as [H1 _].
    use_expr s1 H1 ns s2 H2 HC HN.
    apply inv_w_st; [exact H2|]. apply wf_insert_expr; [exact HN|apply H2].
  Qed.

  Lemma statement_good fuel s : Inv s -> good Inv (statement fuel s).
  Proof.
    intro HI. unfold Asm.statement.
    destruct (a_toks s) as [|t r] eqn:Ht; cbn [good]; auto.
    destruct t as [| | | |id|d| | | |k v]; cbn [good]; auto.
    - (* instruction *)
      destruct (negb (a_code s)); cbn [good]; auto.
      pose proof (arch_good id s HI) as Ha.
      destruct (arch_parse id s) as [s1| |]; cbn [good] in Ha |- *; auto.
      destruct (_ >? TOP)%Z; cbn [good]; auto.
    - (* directive *)
      set (s0 := w_toks s r). assert (H0 : Inv s0) by exact HI.
      destruct d; cbn [good]; auto.
      + (* @org *) use_const s0 H0 v s1 H1 HC. destruct (fits_u16 v); cbn [good]; auto.
      + (* @defl *) apply define_good; exact H0.
      + apply define_good; exact H0.
      + apply define_good; exact H0.
      + apply define_good; exact H0.
      + (* @undef *)
        destruct (a_toks s0) as [|t2 r2]; cbn [good]; auto. destruct t2; cbn [good]; auto.
        destruct (def_name s0 k s1) as [direct| |c] eqn:Hd; cbn [good]; auto.
        * apply inv_w_st; [exact H0|]. apply wf_remove. apply H0.
        * exfalso. eapply def_name_no_crash; eauto.
      + (* @echo *)
        destruct (peek s0) as [t2|]; cbn [good]; auto.
        destruct t2; cbn [good]; auto; use_const s0 H0 cv cs1 H1 HC; exact H1.
      + (* @die *)
        destruct (peek s0) as [t2|]; cbn [good]; auto.
        destruct t2; cbn [good]; auto; use_const s0 H0 cv cs1 H1 HC.
      + (* @assert *)
        use_expr s0 H0 ns s1 H1 HC HN.
        assert (Hafter : forall s2, Inv s2 ->
                  good Inv (match eval_top (a_st s2) ns with
                            | ECrash c => Crash c
                            | Val v => if (v =? 0)%Z then Diag DkAssert else Ok s2
                            | Unsolved => Ok (w_links s2 (a_links s2 ++ [{| l_kind := LAssert; l_off := 0; l_expr := ns |}]))
                            end)).
        { intros s2 H2. use_eval s2 ns H2 HN val.
          - destruct (val =? 0)%Z; cbn [good]; auto.
          - destruct H2 as [W L]. split; [exact W|]. cbn. apply Forall_app. split; [exact L|].
            constructor; [|constructor]. split; [exact HN|cbn; lia]. }
        destruct (is_sym SyComma (peek s1)); [|apply Hafter; exact H1].
        destruct (a_toks (advance s1)) as [|t2 r2]; cbn [good]; auto.
        destruct t2; cbn [good]; auto; try (apply Hafter; exact H1).
      + (* @db *)
        destruct (a_code s0); [apply db_items_good; exact H0|].
        destruct (_ >? TOP)%Z; cbn [good]; auto.
      + (* @dw *)
        destruct (a_code s0); [apply dw_items_good; exact H0|].
        destruct (_ >? TOP)%Z; cbn [good]; auto.
      + (* @ds *)
        use_const s0 H0 size s1 H1 HC.
        destruct (negb (fits_u16 size)); cbn [good]; auto.
        destruct (a_here s1 + size >? TOP)%Z; cbn [good]; auto.
        set (s2 := w_here s1 (a_here s1 + size)). assert (H2 : Inv s2) by exact H1.
        destruct (a_code s2); [|exact H2].
        destruct (is_sym SyComma (peek s2)).
        * use_expr (advance s2) H2 ns s3 H3 HC3 HN. use_eval s3 ns H3 HN val.
          -- destruct (fits_u8 val); cbn [good]; auto. apply inv_append. exact H3.
          -- apply inv_push_link; [exact H3|exact HN|]. cbn [width]. apply repeat_length.
        * apply inv_append. exact H2.
      + (* @incbin *)
        destruct (negb (a_code s)); cbn [good]; auto.
        destruct (a_toks s0) as [|t2 r2]; cbn [good]; auto. destruct t2; cbn [good]; auto.
        destruct (incbin_file s1) as [content|]; cbn [good]; auto.
        destruct (_ >? TOP)%Z; cbn [good]; auto.
        apply (inv_emit (w_toks s0 r2)). exact H0.
      + (* @struct *)
        destruct (a_toks s0) as [|t2 r2]; cbn [good]; auto. destruct t2; cbn [good]; auto.
        destruct k; cbn [good]; auto.
        destruct (defined (a_st s0) s1); cbn [good]; auto.
        pose proof (struct_body_good fuel s1 0%Z (w_ns (w_toks s0 r2) (Some s1)) H0) as Hb.
        destruct (struct_body fuel s1 0 (w_ns (w_toks s0 r2) (Some s1))) as [[size s2]| |]; cbn [good snd] in Hb |- *; auto.
        apply inv_w_st; [exact Hb|]. apply wf_insert_value. apply Hb.
      + (* @align *)
        destruct (peek s0); cbn [good]; auto.
        use_const s0 H0 al s1 H1 HC.
        destruct (al <? 2)%Z; cbn [good]; auto.
        destruct (_ >? 65535)%Z; cbn [good]; auto.
        destruct (_ >? TOP)%Z; cbn [good]; auto.
        match goal with |- Inv (if a_code ?s2 then _ else _) => destruct (a_code s2) end; [|exact H1].
        apply (inv_append (w_here s1 _)). exact H1.
      + (* @meta *) apply meta_pairs_good. exact H0.
      + (* @segment *)
        destruct (a_toks s0) as [|t2 r2]; cbn [good]; auto. destruct t2; cbn [good]; auto.
        destruct (_ || _); cbn [good]; auto. destruct (_ || _); cbn [good]; auto.
      + (* @if *)
        use_const s0 H0 v s1 H1 HC. destruct (v =? 0)%Z; cbn [good]; auto.
        destruct (skip_if 1 (a_toks s1)); cbn [good]; auto.
      + (* @endif *) destruct (a_if s0); cbn [good]; auto.
    - (* label *)
      set (s0 := match k with LkGlobal => w_ns s (Some v) | _ => s end).
      assert (H0 : Inv s0) by (unfold s0; destruct k; exact HI).
      destruct (def_name s0 k v) as [direct| |c] eqn:Hd; cbn [good]; auto.
      2: { exfalso. eapply def_name_no_crash; eauto. }
      destruct (defined (a_st s0) direct); cbn [good]; auto.
      match goal with |- Inv (if ?b then advance ?x else ?x) => assert (Hx : Inv x); [|destruct b; exact Hx] end.
      apply inv_w_st; [exact H0|]. apply wf_insert_value. apply H0.
  Qed.

  Lemma parse_all_good : forall fuel s, Inv s -> good Inv (parse_all fuel s).
  Proof.
    induction fuel as [|f IH]; intros s HI; cbn [Asm.parse_all good]; auto.
    destruct (a_toks s) eqn:Ht; [exact HI|].
    pose proof (statement_good (S f) s HI) as Hs.
    destruct (statement (S f) s) as [s'| |]; cbn [good] in Hs |- *; auto.
  Qed.

  Lemma inv_init ts : Inv (a_init ts).
  Proof. split; [intros s en ex []|constructor]. Qed.

  (* the whole token-level pipeline: assembling and linking never reach a panic site *)
  Theorem assemble_good ts : good (fun _ => True) (assemble arch_parse incbin_file ts).
  Proof.
    unfold assemble. pose proof (parse_all_good (S (length ts)) (a_init ts) (inv_init ts)) as Hp.
    destruct (parse_all (S (length ts)) (a_init ts)) as [s| |]; cbn [good] in Hp |- *; auto.
    pose proof (link_all_good (a_st s) (a_refs s) (a_links s) (a_data s) (proj1 Hp) (proj2 Hp)) as Hl.
    destruct (link_all (a_st s) (a_refs s) (a_links s) (a_data s)); cbn [good] in Hl |- *; auto.
  Qed.
End Steps.

(* ---- the instruction parser (row-table matcher) ------------------------------------------------- *)
From Az65 Require Import Arch ArchTables Run.

Lemma emit_field_good k s ns : Inv s -> compiled ns -> good Inv (emit_field k s ns).
Proof.
  intros HI [c Hc]. unfold emit_field.
  set (ns' := match k with FBranch => ns ++ [NValue (wrap32 (u32 (a_here s + 2))); NSub] | _ => ns end).
  assert (HN : compiled ns').
  { unfold ns'. destruct k; try (exists c; exact Hc).
    exists (CBin BSub c (CNum (wrap32 (u32 (a_here s + 2))))). subst ns. reflexivity. }
  destruct (eval_top (a_st s) ns') as [v| |cc] eqn:E; cbn [good].
  - destruct k.
    + destruct (fits_u8 v); cbn [good]; auto. apply inv_append. exact HI.
    + destruct (fits_u8 v); cbn [good]; [apply inv_append; exact HI|].
      destruct (negb (fits_u16 v)); cbn [good]; auto.
      destruct (_ && _); cbn [good]; auto. apply inv_append. exact HI.
    + destruct (fits_u16 v); cbn [good]; auto. apply inv_append. exact HI.
    + destruct (fits_i8 v); cbn [good]; auto. apply inv_append. exact HI.
  - destruct k; apply inv_push_link; auto.
  - exfalso. eapply eval_compiled; [apply HI|exact HN|exact E].
Qed.

Definition is_exprlike (p : pat) : bool :=
  match p with PExpr _ | PZp | PAbs => true | _ => false end.
Definition nexpr (ps : list pat) : nat := length (filter is_exprlike ps).
Definition fields_below (n : nat) (tm : list titem) : Prop :=
  forall i, In (TField i) tm -> (i < n)%nat.
Definition work_ok (n : nat) (w : work) : Prop := fields_below (n + nexpr (fst w)) (snd w).
Definition args_ok (args : list (fkind * list node)) : Prop := Forall (fun a => compiled (snd a)) args.

Lemma heads_sub f ws w : In w (heads f ws) -> In w ws /\ (exists p r, fst w = p :: r /\ f p = true).
Proof.
  unfold heads. rewrite filter_In. intros [Hin Hf]. split; [exact Hin|].
  destruct (fst w) as [|p r]; [discriminate|]. exists p, r. auto.
Qed.

(* dropping the head pattern of works whose head is not an operand expression keeps the bound *)
Lemma drop1_plain f ws n :
  (forall p, f p = true -> is_exprlike p = false) ->
  Forall (work_ok n) ws -> Forall (work_ok n) (drop1 (heads f ws)).
Proof.
  intros Hf Hall. unfold drop1. apply Forall_forall. intros w Hw.
  apply in_map_iff in Hw. destruct Hw as [w0 [<- Hin]].
  destruct (heads_sub _ _ _ Hin) as [Hin0 [p [r [Ep Fp]]]].
  rewrite Forall_forall in Hall. pose proof (Hall w0 Hin0) as H0.
  unfold work_ok in *. cbn [fst snd]. rewrite Ep in *. cbn [tl].
  unfold nexpr in *. cbn [filter] in H0. rewrite (Hf p Fp) in H0. exact H0.
Qed.

(* dropping an operand pattern after one more argument was collected *)
Lemma drop1_expr f ws n :
  (forall p, f p = true -> is_exprlike p = true) ->
  Forall (work_ok n) ws -> Forall (work_ok (S n)) (drop1 (heads f ws)).
Proof.
  intros Hf Hall. unfold drop1. apply Forall_forall. intros w Hw.
  apply in_map_iff in Hw. destruct Hw as [w0 [<- Hin]].
  destruct (heads_sub _ _ _ Hin) as [Hin0 [p [r [Ep Fp]]]].
  rewrite Forall_forall in Hall. pose proof (Hall w0 Hin0) as H0.
  unfold work_ok in *. cbn [fst snd]. rewrite Ep in *. cbn [tl].
  unfold nexpr in *. cbn [filter] in H0. rewrite (Hf p Fp) in H0. cbn [length] in H0.
  intros i Hi. specialize (H0 i Hi). lia.
Qed.

Lemma heads_heads_sub f g ws w : In w (heads f (heads g ws)) -> In w (heads f ws).
Proof.
  unfold heads. rewrite !filter_In. intros [[H1 _] H2]. auto.
Qed.

Lemma find_done_ok ws n tm : Forall (work_ok n) ws -> find_done ws = Some tm -> fields_below n tm.
Proof.
  induction ws as [|[ps t] ws IH]; intros Hall Hf; cbn in Hf; [discriminate|].
  inversion Hall as [|? ? Hw Hr]; subst.
  destruct ps.
  - inversion Hf; subst. unfold work_ok in Hw. cbn in Hw. rewrite Nat.add_0_r in Hw. exact Hw.
  - apply IH; auto.
Qed.

Lemma heads_forall (P : work -> Prop) f ws : Forall P ws -> Forall P (heads f ws).
Proof.
  intro H. unfold heads. apply Forall_forall. intros w Hw. apply filter_In in Hw.
  rewrite Forall_forall in H. apply H. apply Hw.
Qed.

Lemma args_ok_snoc args k ns : args_ok args -> compiled ns -> args_ok (args ++ [(k, ns)]).
Proof. intros H C. apply Forall_app. split; [exact H|]. constructor; [exact C|constructor]. Qed.

Definition mr_post (x : astate * list titem * list (fkind * list node)) : Prop :=
  Inv (fst (fst x)) /\ args_ok (snd x) /\ fields_below (length (snd x)) (snd (fst x)).

Lemma match_rows_good : forall fuel ws s args,
  Inv s -> args_ok args -> Forall (work_ok (length args)) ws ->
  good mr_post (match_rows fuel ws s args).
Proof.
  induction fuel as [|f IH]; intros ws s args HI HA HW; cbn [match_rows good]; auto.
  destruct (heads (fun p => tok_matches p (peek s)) ws) as [|w0 l0] eqn:Ec.
  2: { rewrite <- Ec. apply IH; [exact HI|exact HA|].
       apply drop1_plain; [|exact HW]. intros p Hp. destruct p; try reflexivity; destruct (peek s) as [[]|]; discriminate. }
  destruct (heads is_sel ws) as [|w1 l1] eqn:Es.
  2: { use_const s HI v s1 H1 HC.
       destruct (heads (is_sel_v v) ws) as [|w2 l2] eqn:Ev; cbn [good]; auto.
       rewrite <- Ev. apply IH; [exact H1|exact HA|].
       apply drop1_plain; [|exact HW]. intros p Hp. destruct p; try reflexivity; discriminate. }
  destruct (find_done ws) as [tm|] eqn:Ef.
  { cbn [good]. unfold mr_post. cbn [fst snd]. split; [exact HI|]. split; [exact HA|].
    eapply find_done_ok; eauto. }
  destruct (heads is_expr ws) as [|w3 l3] eqn:Ee.
  2: { use_expr s HI ns s1 H1 HC HN. rewrite <- Ee.
       apply IH; [exact H1|apply args_ok_snoc; auto|].
       rewrite app_length. cbn [length]. rewrite Nat.add_1_r.
       apply drop1_expr; [|exact HW]. intros p Hp. destruct p; try discriminate; reflexivity. }
  destruct (heads is_zpabs ws) as [|w4 l4] eqn:Ez.
  { destruct (peek s); cbn [good]; auto. }
  rewrite <- Ez. set (za := heads is_zpabs ws).
  assert (HZ : Forall (work_ok (length args)) za) by (apply heads_forall; exact HW).
  assert (Hzp : forall k ns, compiled ns -> forall s1, Inv s1 ->
            good mr_post (match_rows f (drop1 (heads is_zp za)) s1 (args ++ [(k, ns)]))).
  { intros k ns HN s1 H1. apply IH; [exact H1|apply args_ok_snoc; auto|].
    rewrite app_length. cbn [length]. rewrite Nat.add_1_r.
    apply drop1_expr; [|exact HZ]. intros p Hp. destruct p; try discriminate; reflexivity. }
  assert (Hab : forall k ns, compiled ns -> forall s1, Inv s1 ->
            good mr_post (match_rows f (drop1 (heads is_abs za)) s1 (args ++ [(k, ns)]))).
  { intros k ns HN s1 H1. apply IH; [exact H1|apply args_ok_snoc; auto|].
    rewrite app_length. cbn [length]. rewrite Nat.add_1_r.
    apply drop1_expr; [|exact HZ]. intros p Hp. destruct p; try discriminate; reflexivity. }
  use_expr s HI ns s1 H1 HC HN. use_eval s1 ns H1 HN val.
  - destruct (heads is_zp za) as [|w5 l5] eqn:Ezp.
    + destruct (fits_u16 val); cbn [good]; auto.
    + rewrite <- Ezp in Hzp |- *. destruct (fits_u8 val); [apply Hzp; auto|].
      destruct (fits_u16 val); cbn [good]; auto.
  - apply Hab; auto.
Qed.

Lemma emit_tmpl_good : forall tm args s,
  Inv s -> args_ok args -> fields_below (length args) tm -> good Inv (emit_tmpl tm args s).
Proof.
  induction tm as [|it tm IH]; intros args s HI HA HF; cbn [emit_tmpl good]; auto.
  assert (HF' : fields_below (length args) tm) by (intros i Hi; apply HF; right; exact Hi).
  destruct it as [b|i].
  - apply IH; auto. apply inv_append. exact HI.
  - destruct (nth_error args i) as [[k ns]|] eqn:En.
    + assert (HN : compiled ns).
      { unfold args_ok in HA. rewrite Forall_forall in HA. apply (HA (k, ns)). eapply nth_error_In; eauto. }
      pose proof (emit_field_good k s ns HI HN) as He.
      destruct (emit_field k s ns) as [s1| |]; cbn [good] in He |- *; auto.
    + exfalso. apply nth_error_None in En. specialize (HF i (or_introl eq_refl)). lia.
Qed.

(* a row table is well formed when every field a template refers to is an operand of its pattern *)
Definition row_wf (r : row) : bool :=
  forallb (fun it => match it with TLit _ => true | TField i => Nat.ltb i (nexpr (r_pat r)) end) (r_tmpl r).
Definition rows_wf (rows : list row) : bool := forallb row_wf rows.

Theorem arch_parse_good rows : rows_wf rows = true ->
  forall op s, Inv s -> good Inv (arch_parse rows op s).
Proof.
  intros Hwf op s HI. unfold arch_parse.
  set (ws := map (fun r => (r_pat r, r_tmpl r)) (filter (fun r => N.eqb (r_op r) op) rows)).
  assert (HW : Forall (work_ok (length (@nil (fkind * list node)))) ws).
  { unfold ws. apply Forall_forall. intros w Hw. apply in_map_iff in Hw. destruct Hw as [r [<- Hr]].
    apply filter_In in Hr. destruct Hr as [Hr _].
    unfold rows_wf in Hwf. rewrite forallb_forall in Hwf. pose proof (Hwf r Hr) as H.
    unfold row_wf in H. rewrite forallb_forall in H.
    unfold work_ok. cbn [fst snd length]. intros i Hi. specialize (H _ Hi). cbn in H.
    apply Nat.ltb_lt in H. exact H. }
  pose proof (match_rows_good (S (length (a_toks s))) ws (advance s) [] HI (Forall_nil _) HW) as Hm.
  destruct (match_rows (S (length (a_toks s))) ws (advance s) []) as [[[s1 tm] args]| |]; cbn [good] in Hm |- *; auto.
  destruct Hm as [H1 [HA HF]]. cbn [fst snd] in *. apply emit_tmpl_good; auto.
Qed.

Theorem tables_wf : rows_wf z80_rows = true /\ rows_wf sm83_rows = true /\ rows_wf mos_rows = true.
Proof. repeat split; vm_compute; reflexivity. Qed.

(* C13: assembling and linking any token sequence, for any of the three CPUs and any set of @incbin
   files, ends in bytes, in a diagnostic, or by exhausting the model's own fuel - never in one of the
   modelled panic sites *)
Theorem run_asm_never_panics a files ts c :
  run_asm a files ts = Crash c -> c = CkFuel.
Proof.
  intro H. unfold run_asm in H.
  assert (Hg : good (fun _ => True) (assemble (arch_parse (rows_of a)) (assoc_file files) ts)).
  { apply assemble_good. intros id s HI. apply arch_parse_good; [|exact HI].
    destruct tables_wf as [Hz [Hs Hm]]. unfold rows_of. destruct a as [|[p|p|]]; auto. }
  rewrite H in Hg. exact Hg.
Qed.
