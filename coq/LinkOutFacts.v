(* LinkOutFacts.v -- the hand-over of the linked image as TRANSLATED from /repo/src/linker.rs on every run
   (Gen/LinkArms.v, lib/gen_link.py): one `writer.write_all(&self.data)` after the loop over the links, the only
   use of the writer.  (Kept apart from LinkGenFacts.v so that a changed range test does not break this.) *)
From Az65.Gen Require Import LinkArms.

(* the linked image is handed to the output whole, once, after every link has succeeded *)
Theorem generated_output_is_write_all : gen_link_output_is_write_all = true.
Proof. reflexivity. Qed.

(* the reference check (every touched symbol must be defined and solvable) is the first thing the link step does:
   no path returns, or writes, before it (Linker.link_all: check_refs, then apply_links) *)
Theorem generated_references_checked_first : gen_link_references_checked_first = true.
Proof. reflexivity. Qed.
