(* Token.v -- tokens as the lexer delivers them (src/lexer.rs: Token, SymbolName, DirectiveName,
   LabelKind).  Architecture-specific names (operations, registers, flags) are numbered. *)
From Az65 Require Import Base.

Inductive sym :=
| SyTilde | SyBang | SyMod | SyCaret | SyAmp | SyAmpAmp | SyStar | SyHash
| SyLParen | SyRParen | SyLBrace | SyRBrace | SyMinus | SyEqEq | SyNe | SyPlus
| SyPipe | SyPipePipe | SyColon | SyComma | SyLt | SyGt | SyLe | SyGe
| SyShl | SyShr | SyShlL | SyShrL | SyDiv | SyBackslash | SyQuestion.

Inductive directive :=
| DOrg | DHere | DMacro | DEndMacro | DDefl | DDefn | DReDefl | DReDefn | DIsDef | DUnDef
| DEcho | DDie | DAssert | DDb | DDw | DDs | DInclude | DIncbin | DStruct | DEndStruct
| DSizeOf | DAlign | DString | DBin | DHex | DLabel | DMeta | DGetMeta | DEndMeta
| DEach | DEndEach | DCount | DParse | DSegment | DIf | DEndIf | DEntropy.

Inductive labelkind := LkGlobal | LkLocal | LkDirect.

Inductive token :=
| TNewline
| TComment
| TString (s : bytes)
| TNumber (v : Z)            (* the u32 value *)
| TOp (id : N)
| TDir (d : directive)
| TReg (id : N)
| TFlag (id : N)
| TSym (s : sym)
| TLabel (k : labelkind) (s : bytes).

Definition sym_eqb (a b : sym) : bool :=
  match a, b with
  | SyTilde, SyTilde | SyBang, SyBang | SyMod, SyMod | SyCaret, SyCaret | SyAmp, SyAmp
  | SyAmpAmp, SyAmpAmp | SyStar, SyStar | SyHash, SyHash | SyLParen, SyLParen
  | SyRParen, SyRParen | SyLBrace, SyLBrace | SyRBrace, SyRBrace | SyMinus, SyMinus
  | SyEqEq, SyEqEq | SyNe, SyNe | SyPlus, SyPlus | SyPipe, SyPipe | SyPipePipe, SyPipePipe
  | SyColon, SyColon | SyComma, SyComma | SyLt, SyLt | SyGt, SyGt | SyLe, SyLe | SyGe, SyGe
  | SyShl, SyShl | SyShr, SyShr | SyShlL, SyShlL | SyShrL, SyShrL | SyDiv, SyDiv
  | SyBackslash, SyBackslash | SyQuestion, SyQuestion => true
  | _, _ => false
  end.
