(* ExprFacts.v -- the evaluator model computes C semantics (CSpec) on compiled expressions,
   for every expression tree, symbol table and depth; it never underflows its stack on compiled
   code; the cycle check makes a finite fuel sufficient. *)
From Az65 Require Import Base Expr CSpec.
Require Import ZifyBool.
Ltac Zify.zify_post_hook ::= Z.to_euclidean_division_equations.

(* ---- compilation of a C expression tree to postfix nodes ---------------- *)
Definition un_node (o : unop) : list node :=
  match o with
  | UNeg => [NNeg] | UPlus => [] | UNot => [NNotLogical]
  | UInv => [NInvert] | ULo => [NLo] | UHi => [NHi]
  end.

Definition bin_node (o : binop) : node :=
  match o with
  | BOrL => NOrL | BAndL => NAndL | BOr => NOr | BXor => NXor | BAnd => NAnd
  | BEq => NEq | BNe => NNe | BLt => NLt | BLe => NLe | BGt => NGt | BGe => NGe
  | BShl => NShl | BShlL => NShlL | BShr => NShr | BShrL => NShrL
  | BAdd => NAdd | BSub => NSub | BMul => NMul | BDiv => NDiv | BRem => NRem
  end.

Fixpoint compile (e : cexpr) : list node :=
  match e with
  | CNum v => [NValue v]
  | CSym s => [NLabel s]
  | CSizeof s => [NSizeOf s]
  | CUn o a => compile a ++ un_node o
  | CBin o a b => compile a ++ compile b ++ [bin_node o]
  | CTern c a b => compile c ++ compile a ++ compile b ++ [NTernary]
  end.

(* ---- arithmetic facts ---------------------------------------------------- *)
Lemma to_int32_wrap32 z : to_int32 z = wrap32 z.
Proof.
  unfold to_int32, wrap32, two31, two32.
  destruct (Z.ltb_spec (z mod 4294967296) 2147483648); lia.
Qed.

Lemma wrap32_range z : in_i32 (wrap32 z).
Proof. unfold in_i32, wrap32, two31, two32. lia. Qed.

Lemma wrap32_id z : in_i32 z -> wrap32 z = z.
Proof. unfold in_i32, wrap32, two31, two32. lia. Qed.

Lemma lo_spec v : arm_lo v = v mod 256.
Proof. unfold arm_lo. change 255 with (Z.ones 8). rewrite Z.land_ones by lia. reflexivity. Qed.

Lemma hi_spec v : arm_hi v = (v / 256) mod 256.
Proof.
  unfold arm_hi, u16. rewrite Z.shiftr_div_pow2 by lia. change (2 ^ 8) with 256. lia.
Qed.

Lemma shamt_range r : 0 <= shamt r < 32.
Proof. unfold shamt. lia. Qed.

Lemma gtb_ltb a b : (a >? b) = (b <? a).
Proof. apply Z.gtb_ltb. Qed.
Lemma geb_leb a b : (a >=? b) = (b <=? a).
Proof. apply Z.geb_leb. Qed.

Definition cres_of (r : eres) : cres :=
  match r with Val v => CV v | Unsolved => CNone | ECrash c => CX c end.
Definition eres_of (r : cres) : eres :=
  match r with CV v => Val v | CNone => Unsolved | CX c => ECrash c end.


(* every unary operator: running its node on a stack whose top is v replaces the top by the
   C value *)
Lemma un_node_step lab szf o v stack ns :
  go lab szf (un_node o ++ ns) (v :: stack) = go lab szf ns (c_unop o v :: stack).
Proof.
  destruct o; cbn [un_node app go pure_step un of_opt c_unop]; try reflexivity.
  - rewrite to_int32_wrap32. reflexivity.
  - rewrite lo_spec. reflexivity.
  - rewrite hi_spec. reflexivity.
Qed.

Lemma bin_node_step lab szf o a b stack ns :
  go lab szf (bin_node o :: ns) (b :: a :: stack) =
  match c_binop o a b with
  | Some v => go lab szf ns (v :: stack)
  | None => Unsolved
  end.
Proof.
  pose proof (shamt_range b) as Hs. unfold shamt in Hs.
  destruct o; cbn [bin_node go pure_step bin of_opt c_binop];
    unfold arm_orl, arm_andl, arm_or, arm_xor, arm_and, arm_eq, arm_ne, arm_lt, arm_le,
           arm_gt, arm_ge, arm_shl, arm_shll, arm_shr, arm_shrl, arm_add, arm_sub, arm_mul,
           arm_div, arm_rem, nonzero, truth, b2z, shamt, u32, two32;
    rewrite ?to_int32_wrap32, ?gtb_ltb, ?geb_leb, ?Z.shiftl_mul_pow2, ?Z.shiftr_div_pow2 by lia;
    try reflexivity.
  - destruct (b =? 0); reflexivity.
  - destruct (b =? 0); reflexivity.
Qed.

(* ---- the main simulation lemma ------------------------------------------- *)
Section Sim.
  Variable lab : bytes -> eres.
  Variable szf : bytes -> eres.
  Let sv s := cres_of (lab s).
  Let zv s := cres_of (szf s).

  Lemma go_compile e : forall ns stack,
    go lab szf (compile e ++ ns) stack =
    match ceval sv zv e with
    | CV v => go lab szf ns (v :: stack)
    | CNone => Unsolved
    | CX c => ECrash c
    end.
  Proof.
    induction e as [v | s | s | o a IHa | o a IHa b IHb | c IHc a IHa b IHb]; intros ns stack.
    - reflexivity.
    - cbn [compile app go ceval]. unfold sv. destruct (lab s); reflexivity.
    - cbn [compile app go ceval]. unfold zv. destruct (szf s); reflexivity.
    - cbn [compile ceval]. rewrite <- app_assoc, IHa.
      destruct (ceval sv zv a); try reflexivity. apply un_node_step.
    - cbn [compile ceval]. rewrite <- !app_assoc, IHa.
      destruct (ceval sv zv a) as [va| |]; try reflexivity.
      rewrite IHb. destruct (ceval sv zv b) as [vb| |]; try reflexivity.
      cbn [app]. rewrite bin_node_step. destruct (c_binop o va vb); reflexivity.
    - cbn [compile ceval]. rewrite <- !app_assoc, IHc.
      destruct (ceval sv zv c) as [vc| |]; try reflexivity.
      rewrite IHa. destruct (ceval sv zv a) as [va| |]; try reflexivity.
      rewrite IHb. destruct (ceval sv zv b) as [vb| |]; reflexivity.
  Qed.

  Lemma go_compile_top e :
    go lab szf (compile e) [] = eres_of (ceval sv zv e).
  Proof.
    rewrite <- (app_nil_r (compile e)), go_compile.
    destruct (ceval sv zv e); reflexivity.
  Qed.
End Sim.

(* Expr::evaluate on a compiled expression is the C value of the expression, where a label
   resolves as the evaluator resolves it (value, or recursively evaluated lazy definition). *)
Theorem eval_compile f st vis e :
  eval (S f) st vis (compile e) =
  eres_of (ceval (fun s => cres_of (label_res f st vis s))
                 (fun s => cres_of (sizeof_res st s)) e).
Proof.
  cbn [eval]. rewrite go_compile_top. reflexivity.
Qed.

(* no stack underflow (the unwrap()s on pop) and no arithmetic panic on compiled code:
   the only abnormal result possible comes from a label's own evaluation *)
Lemma ceval_crash_from_leaf sv zv e c :
  ceval sv zv e = CX c -> (exists s, sv s = CX c) \/ (exists s, zv s = CX c).
Proof.
  induction e as [v | s | s | o a IHa | o a IHa b IHb | c0 IHc a IHa b IHb]; cbn [ceval]; intro H.
  - discriminate.
  - left; eauto.
  - right; eauto.
  - destruct (ceval sv zv a); try discriminate; auto.
  - destruct (ceval sv zv a); try discriminate; auto.
    destruct (ceval sv zv b); try discriminate; auto.
    destruct (c_binop o v v0); discriminate.
  - destruct (ceval sv zv c0); try discriminate; auto.
    destruct (ceval sv zv a); try discriminate; auto.
    destruct (ceval sv zv b); try discriminate; auto.
Qed.


(* ---- evaluation is total: no crash, for any table of compiled definitions --- *)
Lemma bytes_eqb_eq a : forall b, bytes_eqb a b = true <-> a = b.
Proof.
  induction a as [|x a IH]; intros [|y b]; cbn [bytes_eqb]; split; intro H; try reflexivity; try discriminate.
  - apply andb_prop in H. destruct H as [H1 H2]. apply N.eqb_eq in H1. apply IH in H2. congruence.
  - inversion H; subst. rewrite N.eqb_refl. cbn. apply IH. reflexivity.
Qed.

Lemma mem_name_false s l : mem_name s l = false -> ~ In s l.
Proof.
  induction l as [|x l IH]; cbn [mem_name]; intros H [].
  - subst. apply orb_false_elim in H. destruct H as [H _].
    assert (bytes_eqb s s = true) by (apply bytes_eqb_eq; reflexivity). congruence.
  - apply orb_false_elim in H. destruct H as [_ H]. apply IH; auto.
Qed.

Lemma lookup_in st s en : lookup st s = Some en -> In (s, en) st.
Proof.
  induction st as [|[k e] st IH]; cbn [lookup]; intro H; [discriminate|].
  destruct (bytes_eqb k s) eqn:E.
  - apply bytes_eqb_eq in E. inversion H; subst. left. reflexivity.
  - right. auto.
Qed.

(* every lazily evaluated definition in the table is compiled code (it is: the parser only
   ever stores [compile c]) *)
Definition wf_st (st : symtab) : Prop :=
  forall s en ex, In (s, en) st -> e_sym en = SExpr ex -> exists c, ex = compile c.

Lemma sizeof_res_no_crash st s c : sizeof_res st s <> ECrash c.
Proof.
  unfold sizeof_res. destruct (lookup st s); [|discriminate].
  destruct (find_meta SIZEOF_KEY (e_meta e)); [|discriminate].
  destruct (parse_i32_dec b); discriminate.
Qed.

Lemma eval_no_crash st : wf_st st ->
  forall f vis, NoDup vis -> incl vis (map fst st) -> (length st < length vis + f)%nat ->
  forall e c, eval f st vis (compile e) <> ECrash c.
Proof.
  intros Hwf. induction f as [|f IH]; intros vis Hnd Hincl Hlen e c.
  - exfalso. pose proof (NoDup_incl_length Hnd Hincl) as Hl. rewrite map_length in Hl. lia.
  - rewrite eval_compile. intro Hc.
    destruct (ceval _ _ e) as [v| |c'] eqn:Hce; try discriminate.
    cbn [eres_of] in Hc. inversion Hc; subst c'.
    destruct (ceval_crash_from_leaf _ _ _ _ Hce) as [[s Hs]|[s Hs]].
    + unfold label_res in Hs.
      destruct (lookup st s) as [en|] eqn:Hlk; [|discriminate].
      destruct (e_sym en) as [v|ex] eqn:Hsym; [discriminate|].
      destruct (mem_name s vis) eqn:Hm; [discriminate|].
      pose proof (lookup_in _ _ _ Hlk) as Hin.
      destruct (Hwf _ _ _ Hin Hsym) as [c0 ->].
      destruct (eval f st (s :: vis) (compile c0)) as [v| |c1] eqn:He; try discriminate.
      cbn [cres_of] in Hs. inversion Hs; subst c1.
      revert He. apply IH.
      * constructor; auto. apply mem_name_false; auto.
      * intros x [<-|Hx]; [|apply Hincl; auto].
        change s with (fst (s, en)). apply in_map. auto.
      * cbn [length]. lia.
    + destruct (sizeof_res st s) eqn:Hz; try discriminate.
      exfalso. eapply sizeof_res_no_crash; eauto.
Qed.

Theorem eval_total st e c : wf_st st -> eval_top st (compile e) <> ECrash c.
Proof.
  intro Hwf. unfold eval_top. apply eval_no_crash; auto.
  - constructor.
  - intros x [].
Qed.
