(* Arch.v -- the three instruction parsers (src/z80, src/sm83, src/mos6502) as one generic
   matcher over per-architecture row tables.  The Rust code is a hand-written decision tree per
   mnemonic: at each point it looks at the next token, follows the arm for that exact register /
   flag / symbol / number if there is one, otherwise falls into a default arm that parses an
   expression; operand values are then pushed now or deferred through a link.  A row is one
   root-to-leaf path of that tree: the token pattern it matches and the bytes it emits. *)
From Az65 Require Import Base Token Expr ExprParse Linker Asm.

Inductive pat :=
| PReg (r : N)
| PFlag (f : N)
| PSym (s : sym)
| PNum (v : Z)            (* a literal number token (`im 0/1/2`) *)
| PSel (v : Z)            (* an expression that must be solvable now and equal v (bit number, rst vector) *)
| PExpr (k : fkind)       (* an operand expression, emitted through field kind k *)
| PZp                     (* 6502: expression known now and <= $FF -> zero-page form (byte operand) *)
| PAbs.                   (* 6502: expression not known now, or > $FF -> absolute form (word operand) *)

Inductive titem :=
| TLit (b : N)
| TField (i : nat).       (* the i-th expression matched by the pattern, in order *)

Record row := { r_op : N; r_pat : list pat; r_tmpl : list titem }.

Definition tok_matches (p : pat) (t : option token) : bool :=
  match p, t with
  | PReg r, Some (TReg r') => N.eqb r r'
  | PFlag f, Some (TFlag f') => N.eqb f f'
  | PSym s, Some (TSym s') => sym_eqb s s'
  | PNum v, Some (TNumber v') => Z.eqb v v'
  | _, _ => false
  end.

Definition work := (list pat * list titem)%type.

Definition heads (f : pat -> bool) (ws : list work) : list work :=
  filter (fun w => match fst w with p :: _ => f p | [] => false end) ws.
Definition drop1 (ws : list work) : list work :=
  map (fun w => (tl (fst w), snd w)) ws.
Definition is_sel (p : pat) := match p with PSel _ => true | _ => false end.
Definition is_sel_v (v : Z) (p : pat) := match p with PSel v' => Z.eqb v v' | _ => false end.
Definition is_expr (p : pat) := match p with PExpr _ => true | _ => false end.
Definition is_zp (p : pat) := match p with PZp => true | _ => false end.
Definition is_abs (p : pat) := match p with PAbs => true | _ => false end.
Definition is_zpabs (p : pat) := is_zp p || is_abs p.
Fixpoint find_done (ws : list work) : option (list titem) :=
  match ws with
  | [] => None
  | ([], t) :: _ => Some t
  | _ :: r => find_done r
  end.
Definition expr_kind (ws : list work) : fkind :=
  match ws with
  | (PExpr k :: _, _) :: _ => k
  | _ => FByte
  end.

(* walk the decision tree; returns the template to emit and the operand expressions *)
Fixpoint match_rows (fuel : nat) (ws : list work) (s : astate) (args : list (fkind * list node))
  : outcome (astate * list titem * list (fkind * list node)) :=
  match fuel with
  | O => Crash CkFuel
  | S f =>
    let t := peek s in
    match heads (fun p => tok_matches p t) ws with
    | (_ :: _) as conc => match_rows f (drop1 conc) (advance s) args
    | [] =>
      match heads is_sel ws with
      | _ :: _ =>
        match const_expr s with
        | Ok (v, s1) =>
          match heads (is_sel_v v) ws with
          | [] => Diag DkRange
          | sel => match_rows f (drop1 sel) s1 args
          end
        | Diag k => Diag k
        | Crash c => Crash c
        end
      | [] =>
        match find_done ws with
        | Some tm => Ok (s, tm, args)
        | None =>
          match heads is_expr ws with
          | (_ :: _) as es =>
            match expr s with
            | Ok (ns, s1) => match_rows f (drop1 es) s1 (args ++ [(expr_kind es, ns)])
            | Diag k => Diag k
            | Crash c => Crash c
            end
          | [] =>
            match heads is_zpabs ws with
            | [] => match t with None => Diag DkSyntax | Some _ => Diag DkSyntax end
            | za =>
              match expr s with
              | Ok (ns, s1) =>
                match eval_top (a_st s1) ns with
                | ECrash c => Crash c
                | Val v =>
                  match heads is_zp za with
                  | (_ :: _) as zs =>
                    if fits_u8 v then match_rows f (drop1 zs) s1 (args ++ [(FByte, ns)])
                    else if fits_u16 v then match_rows f (drop1 (heads is_abs za)) s1 (args ++ [(FWord, ns)])
                    else Diag DkRange
                  | [] =>
                    if fits_u16 v then match_rows f (drop1 (heads is_abs za)) s1 (args ++ [(FWord, ns)])
                    else Diag DkRange
                  end
                | Unsolved => match_rows f (drop1 (heads is_abs za)) s1 (args ++ [(FWord, ns)])
                end
              | Diag k => Diag k
              | Crash c => Crash c
              end
            end
          end
        end
      end
    end
  end.

Fixpoint emit_tmpl (tm : list titem) (args : list (fkind * list node)) (s : astate) : outcome astate :=
  match tm with
  | [] => Ok s
  | TLit b :: r => emit_tmpl r args (w_data s (a_data s ++ [b]))
  | TField i :: r =>
    match nth_error args i with
    | Some (k, ns) => match emit_field k s ns with
                      | Ok s1 => emit_tmpl r args s1
                      | Diag d => Diag d
                      | Crash c => Crash c
                      end
    | None => Crash CkIndex
    end
  end.

(* the ArchAssembler::parse of an architecture given by its row table *)
Definition arch_parse (rows : list row) (op : N) (s : astate) : outcome astate :=
  let ws := map (fun r => (r_pat r, r_tmpl r)) (filter (fun r => N.eqb (r_op r) op) rows) in
  match match_rows (S (length (a_toks s))) ws (advance s) [] with
  | Ok (s1, tm, args) => emit_tmpl tm args s1
  | Diag k => Diag k
  | Crash c => Crash c
  end.
