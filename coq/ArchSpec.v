(* ArchSpec.v -- instantiating a row's emission template with symbolic operand bytes, and the
   value-level round trips of each field kind (what bytes a written value becomes and what value
   those bytes denote). *)
From Az65 Require Import Base Token Expr ExprParse Linker Asm Arch LinkerFacts.
Require Import ZifyBool.
Ltac Zify.zify_post_hook ::= Z.to_euclidean_division_equations.

(* the field kind of each expression slot of a pattern, in order *)
Fixpoint slot_kinds (p : list pat) : list fkind :=
  match p with
  | [] => []
  | PExpr k :: r => k :: slot_kinds r
  | PZp :: r => FByte :: slot_kinds r
  | PAbs :: r => FWord :: slot_kinds r
  | _ :: r => slot_kinds r
  end.

(* the bytes of a row when slot i's operand bytes are [f i 0] (and [f i 1] for a word) *)
Definition inst (r : row) (f : nat -> nat -> N) : list N :=
  let ks := slot_kinds (r_pat r) in
  flat_map (fun it => match it with
                      | TLit b => [b]
                      | TField i => match nth i ks FByte with
                                    | FWord => [f i 0%nat; f i 1%nat]
                                    | _ => [f i 0%nat]
                                    end
                      end) (r_tmpl r).

(* ---- value <-> bytes, per field kind (what [now_bytes] / the linker write) -------------- *)
(* byte field: accepted exactly for 0..255, and the byte IS the value *)
Lemma byte_field_roundtrip v :
  now_bytes FByte v = (if (0 <=? v) && (v <=? 255) then Ok [Z.to_N v] else Diag DkRange).
Proof.
  unfold now_bytes, fits_u8, byte_of, u8.
  destruct (Z.leb_spec 0 v); destruct (Z.leb_spec v 255); cbn [andb]; try reflexivity.
  rewrite Z.mod_small by lia. reflexivity.
Qed.

(* word field: accepted exactly for 0..65535, little endian, lo + 256*hi = v *)
Lemma word_field_roundtrip v :
  now_bytes FWord v =
  (if (0 <=? v) && (v <=? 65535) then Ok [Z.to_N (v mod 256); Z.to_N (v / 256)] else Diag DkRange).
Proof.
  unfold now_bytes, fits_u16, word_bytes, u16.
  destruct (Z.leb_spec 0 v); destruct (Z.leb_spec v 65535); cbn [andb]; try reflexivity.
  rewrite (Z.mod_small v 65536) by lia. reflexivity.
Qed.

Lemma word_value v : 0 <= v <= 65535 -> (v mod 256) + 256 * (v / 256) = v /\ 0 <= v mod 256 < 256 /\ 0 <= v / 256 < 256.
Proof. intro. lia. Qed.

(* relative field: d = target - (here + 2) accepted exactly for -128..127; the byte is d's
   two's-complement image, so target = here + 2 + signed(byte) *)
Definition signed8 (b : Z) : Z := if b <? 128 then b else b - 256.

Lemma rel_field_roundtrip d :
  now_bytes FBranch d =
  (if (-128 <=? d) && (d <=? 127) then Ok [Z.to_N (d mod 256)] else Diag DkRange) /\
  (-128 <= d <= 127 -> signed8 (d mod 256) = d).
Proof.
  split.
  - unfold now_bytes, fits_i8, byte_of, u8. reflexivity.
  - intro H. unfold signed8. destruct (Z.ltb_spec (d mod 256) 128); lia.
Qed.

(* high-page field (SM83 ldh): accepted for 0..255 and $FF00..$FFFF, byte = v mod 256 *)
Lemma hmem_field_roundtrip v :
  now_bytes FHmem v =
  (if ((0 <=? v) && (v <=? 255)) || ((65280 <=? v) && (v <=? 65535)) then Ok [Z.to_N (v mod 256)] else Diag DkRange).
Proof.
  unfold now_bytes, fits_u8, fits_u16, byte_of, u8.
  destruct (Z.leb_spec 0 v); destruct (Z.leb_spec v 255); destruct (Z.leb_spec 65280 v);
    destruct (Z.leb_spec v 65535); cbn [andb orb negb]; try reflexivity; lia.
Qed.

(* index displacement (Z80 (ix+d)): the field is written through the unsigned byte kind, while the
   CPU reads the byte as signed.  They agree exactly on 0..127; from 128 the written value and the
   decoded one differ (known finding D-Z80-DISP), and -128..-1 is rejected although it fits. *)
Lemma disp_agrees v : 0 <= v <= 127 -> now_bytes FByte v = Ok [Z.to_N v] /\ signed8 v = v.
Proof.
  intro H. split.
  - rewrite byte_field_roundtrip. destruct (Z.leb_spec 0 v); destruct (Z.leb_spec v 255); try lia. reflexivity.
  - unfold signed8. destruct (Z.ltb_spec v 128); lia.
Qed.

Lemma disp_refuted :
  (exists v, now_bytes FByte v = Ok [Z.to_N v] /\ signed8 v <> v) /\
  (exists v, -128 <= v <= -1 /\ now_bytes FByte v = Diag DkRange).
Proof.
  split.
  - exists 128. split; [vm_compute; reflexivity | vm_compute; discriminate].
  - exists (-1). split; [lia | vm_compute; reflexivity].
Qed.
