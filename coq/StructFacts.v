(* StructFacts.v -- @struct: field values are the prefix sums of the declared sizes, paddings
   and alignment gaps; the struct's name is the total; @sizeof metadata is the declared size.
   Proved for member lists of any length whose sizes are written as numbers. *)
From Az65 Require Import Base Token Expr CSpec ExprFacts ExprParse Linker Asm AsmFacts.
Require Import ZifyBool.
Ltac Zify.zify_post_hook ::= Z.to_euclidean_division_equations.

(* ---- specification: the layout function -------------------------------------- *)
Inductive member :=
| MField (name : bytes) (size : Z)
| MDb (name : bytes)
| MDw (name : bytes)
| MPad (n : Z)
| MAlign (a : Z).

Definition align_gap (size a : Z) : Z := (a - size mod a) mod a.

(* (name, offset, declared size) of every field, and the total *)
Fixpoint layout (size : Z) (ms : list member) : Z * list (bytes * Z * Z) :=
  match ms with
  | [] => (size, [])
  | MField n sz :: r => let (t, fs) := layout (wrap32 (size + sz)) r in (t, (n, size, sz) :: fs)
  | MDb n :: r => let (t, fs) := layout (wrap32 (size + 1)) r in (t, (n, size, 1) :: fs)
  | MDw n :: r => let (t, fs) := layout (wrap32 (size + 2)) r in (t, (n, size, 2) :: fs)
  | MPad p :: r => layout (wrap32 (size + p)) r
  | MAlign a :: r => layout (wrap32 (size + align_gap size a)) r
  end.

Lemma align_gap_spec size a : 2 <= a -> 0 <= align_gap size a < a /\ (size + align_gap size a) mod a = 0.
Proof.
  unfold align_gap. intro H. split; [apply Z.mod_pos_bound; lia|].
  rewrite Z.add_mod by lia. rewrite Z.mod_mod by lia.
  pose proof (Z.mod_pos_bound size a ltac:(lia)) as Hr.
  destruct (Z.eq_dec (size mod a) 0) as [E|E].
  - rewrite E. rewrite Z.sub_0_r, Z_mod_same_full. reflexivity.
  - rewrite (Z.mod_small (a - size mod a) a) by lia.
    replace (size mod a + (a - size mod a)) with a by lia. apply Z_mod_same_full.
Qed.

(* ---- how members are written ---------------------------------------------------- *)
Definition member_toks (m : member) : list token :=
  match m with
  | MField n sz => [TLabel LkGlobal n; TNumber sz; TNewline]
  | MDb n => [TLabel LkGlobal n; TDir DDb; TNewline]
  | MDw n => [TLabel LkGlobal n; TDir DDw; TNewline]
  | MPad p => [TDir DDs; TNumber p; TNewline]
  | MAlign a => [TDir DAlign; TNumber a; TNewline]
  end.

Definition num_ok (n : Z) : Prop := 0 <= n < two31.

(* the symbol table after the fields have been entered *)
Definition field_name (sname f : bytes) : bytes := sname ++ [46%N] ++ f.
Fixpoint enter_fields (sname : bytes) (fs : list (bytes * Z * Z)) (st : symtab) : symtab :=
  match fs with
  | [] => st
  | (f, off, sz) :: r =>
    enter_fields sname r (st_insert (field_name sname f) {| e_sym := SValue off; e_meta := size_meta sz |} st)
  end.

(* the guards the code applies: numbers well-formed, alignments >= 2, field names fresh *)
Fixpoint members_ok (sname : bytes) (size : Z) (ms : list member) (st : symtab) : Prop :=
  match ms with
  | [] => True
  | MField n sz :: r =>
    num_ok sz /\ defined st (field_name sname n) = false /\
    members_ok sname (wrap32 (size + sz)) r (st_insert (field_name sname n) {| e_sym := SValue size; e_meta := size_meta sz |} st)
  | MDb n :: r =>
    defined st (field_name sname n) = false /\
    members_ok sname (wrap32 (size + 1)) r (st_insert (field_name sname n) {| e_sym := SValue size; e_meta := size_meta 1 |} st)
  | MDw n :: r =>
    defined st (field_name sname n) = false /\
    members_ok sname (wrap32 (size + 2)) r (st_insert (field_name sname n) {| e_sym := SValue size; e_meta := size_meta 2 |} st)
  | MPad p :: r => num_ok p /\ members_ok sname (wrap32 (size + p)) r st
  | MAlign a :: r => num_ok a /\ 2 <= a /\ members_ok sname (wrap32 (size + align_gap size a)) r st
  end.

(* ---- a number followed by a line break is a constant expression ------------------- *)
Lemma binloop_newline n ops sub l r : binloop n ops sub l (TNewline :: r) = Ok (l, TNewline :: r).
Proof. destruct n; reflexivity. Qed.

Lemma chain_number ls base n r :
  base (TNumber n :: TNewline :: r) = Ok (PNum n, TNewline :: r) ->
  chain ls base (TNumber n :: TNewline :: r) = Ok (PNum n, TNewline :: r).
Proof.
  intro Hb. induction ls as [|o ls IH]; cbn [chain]; [exact Hb|].
  unfold plevel. rewrite IH. apply binloop_newline.
Qed.

Lemma ptree_number n r : ptree (TNumber n :: TNewline :: r) = Ok (PNum n, TNewline :: r).
Proof.
  unfold ptree, p0_of. rewrite chain_number; reflexivity.
Qed.

Lemma const_expr_number s n r :
  a_toks s = TNumber n :: TNewline :: r ->
  const_expr s = Ok (wrap32 n, w_toks s (TNewline :: r)).
Proof.
  intro Ht. unfold const_expr, expr, pexpr. rewrite Ht, ptree_number.
  cbn [resolve bind compile node_names]. rewrite app_nil_r.
  unfold eval_top. cbn [a_st w_refs w_toks eval go pure_step].
  reflexivity.
Qed.

Lemma wrap32_num n : num_ok n -> wrap32 n = n.
Proof. unfold num_ok, wrap32, two31, two32. lia. Qed.

(* ---- the theorem ------------------------------------------------------------------- *)
Theorem struct_is_layout sname : forall ms fuel size s rest,
  a_toks s = flat_map member_toks ms ++ TDir DEndStruct :: rest ->
  members_ok sname size ms (a_st s) ->
  (2 * length ms < fuel)%nat ->
  struct_body fuel sname size s =
  Ok (fst (layout size ms),
      w_st (w_toks s rest) (enter_fields sname (snd (layout size ms)) (a_st s))).
Proof.
  induction ms as [|m ms IH]; intros fuel size s rest Ht Hok Hf.
  - destruct fuel as [|f]; [lia|]. cbn [flat_map app] in Ht. cbn [struct_body]. rewrite Ht.
    cbn [layout fst snd enter_fields]. reflexivity.
  - destruct fuel as [|[|f]]; try (cbn [length] in Hf; lia).
    assert (Hf2 : (2 * length ms < f)%nat) by (cbn [length] in Hf; lia).
    cbn [flat_map] in Ht. rewrite <- app_assoc in Ht.
    destruct m as [n sz|n|n|p|a]; cbn [member_toks app] in Ht; cbn [members_ok] in Hok.
    + (* sized field *)
      destruct Hok as [Hn [Hfresh Hrest]].
      cbn [struct_body]. rewrite Ht. fold (field_name sname n). rewrite Hfresh.
      cbn [peek hd_error a_toks w_toks is_sym].
      erewrite const_expr_number by reflexivity. rewrite (wrap32_num _ Hn).
      (* the line break is skipped by the next iteration *)
      cbn [struct_body a_toks w_st w_toks].
      rewrite (IH f _ _ rest); [| reflexivity | exact Hrest | exact Hf2].
      cbn [layout]. destruct (layout (wrap32 (size + sz)) ms) as [t fs] eqn:El.
      cbn [fst snd enter_fields a_st w_st w_toks]. reflexivity.
    + destruct Hok as [Hfresh Hrest].
      cbn [struct_body]. rewrite Ht. fold (field_name sname n). rewrite Hfresh.
      cbn [peek hd_error a_toks w_toks is_sym struct_body w_st].
      rewrite (IH f _ _ rest); [| reflexivity | exact Hrest | exact Hf2].
      cbn [layout]. destruct (layout (wrap32 (size + 1)) ms) as [t fs] eqn:El.
      cbn [fst snd enter_fields a_st w_st w_toks]. reflexivity.
    + destruct Hok as [Hfresh Hrest].
      cbn [struct_body]. rewrite Ht. fold (field_name sname n). rewrite Hfresh.
      cbn [peek hd_error a_toks w_toks is_sym struct_body w_st].
      rewrite (IH f _ _ rest); [| reflexivity | exact Hrest | exact Hf2].
      cbn [layout]. destruct (layout (wrap32 (size + 2)) ms) as [t fs] eqn:El.
      cbn [fst snd enter_fields a_st w_st w_toks]. reflexivity.
    + destruct Hok as [Hn Hrest].
      cbn [struct_body]. rewrite Ht.
      erewrite const_expr_number by reflexivity. rewrite (wrap32_num _ Hn).
      cbn [struct_body a_toks w_toks].
      rewrite (IH f _ _ rest); [| reflexivity | exact Hrest | exact Hf2].
      cbn [layout a_st w_toks]. reflexivity.
    + destruct Hok as [Hn [Ha Hrest]].
      cbn [struct_body]. rewrite Ht.
      erewrite const_expr_number by reflexivity. rewrite (wrap32_num _ Hn).
      destruct (Z.ltb_spec a 2); [lia|].
      cbn [struct_body a_toks w_toks].
      rewrite (IH f _ _ rest); [| reflexivity | exact Hrest | exact Hf2].
      cbn [layout a_st w_toks]. reflexivity.
Qed.

(* ---- @sizeof reads back the declared size, whenever it is evaluated ----------------- *)
Lemma find_meta_size v : find_meta SIZEOF_KEY (size_meta v) = Some (dec_string v).
Proof. reflexivity. Qed.

(* the gap is the LEAST non-negative padding that reaches a multiple of the alignment; in particular none at a boundary *)
Lemma align_gap_least size a p : 2 <= a -> 0 <= p -> (size + p) mod a = 0 -> align_gap size a <= p.
Proof.
  intros Ha Hp Hd. destruct (align_gap_spec size a Ha) as [[Hg0 Hg1] Hgd].
  destruct (Z_le_gt_dec (align_gap size a) p) as [H|H]; [exact H|exfalso].
  (* two paddings below a that both reach a multiple differ by a multiple of a smaller than a *)
  assert (Hm : (align_gap size a - p) mod a = 0).
  { replace (align_gap size a - p) with ((size + align_gap size a) - (size + p)) by ring.
    rewrite Zminus_mod, Hgd, Hd. reflexivity. }
  rewrite Z.mod_small in Hm by lia. lia.
Qed.

Lemma align_gap_at_boundary size a : 2 <= a -> size mod a = 0 -> align_gap size a = 0.
Proof.
  intros Ha Hs. pose proof (align_gap_least size a 0 Ha (Z.le_refl 0)) as H.
  rewrite Z.add_0_r in H. specialize (H Hs).
  destruct (align_gap_spec size a Ha) as [[Hg0 _] _]. lia.
Qed.
