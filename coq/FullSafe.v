(* FullSafe.v -- (C13) the full pipeline model (token pump with macro recording / replay and the
   macro-like directives, expression ladder over the pump, every statement arm, includes, instruction
   parsers, linker) never reaches a crash outcome other than exhausting its own fuel.  Invariant: the
   assembler-state invariant of SafeFacts, every macro source on the source stack only refers to
   argument slots it has, and every recorded macro body only refers to parameters it declares. *)
From Az65 Require Import Base Token Expr CSpec ExprFacts ExprParse ExprParseFacts GParse Linker Asm AsmFacts Arch ArchTables
     FileMan Full FullFacts SafeFacts.
Require Import Lia.

Lemma good_bind {A B} (P : A -> Prop) (Q : B -> Prop) (m : outcome A) (f : A -> outcome B) :
  good P m -> (forall x, P x -> good Q (f x)) -> good Q (bind m f).
Proof. destruct m; cbn; auto. Qed.

(* ---- the invariant of the pump state ---------------------------------------------------------- *)
Definition src_ok (src : source) : Prop :=
  match src with
  | SrcToks _ => True
  | SrcMacro body args _ cur => FullFacts.args_ok body args /\ wf_cur body cur
  end.
Definition mac_ok (m : macro) : Prop := forall i, In (MArg i) (m_body m) -> (i < m_nargs m)%nat.

Definition FInv (s : fstate) : Prop :=
  Inv (f_a s) /\ Forall (fun sd => src_ok (fst sd)) (f_src s) /\ Forall (fun km => mac_ok (snd km)) (f_macros s).

Definition post {X} (x : X * fstate) : Prop := FInv (snd x).

Lemma finv_drop s : FInv s -> FInv (drop s). Proof. intro H; exact H. Qed.
Lemma finv_stash s t : FInv s -> FInv (u_stash s t). Proof. intro H; exact H. Qed.
Lemma finv_ent s n : FInv s -> FInv (u_ent s n). Proof. intro H; exact H. Qed.
Lemma finv_rec s b : FInv s -> FInv (u_rec s b). Proof. intro H; exact H. Qed.
Lemma finv_a s a : FInv s -> Inv a -> FInv (u_a s a).
Proof. intros [_ [S M]] HA. split; [exact HA|split; assumption]. Qed.
Lemma finv_src s l : FInv s -> Forall (fun sd => src_ok (fst sd)) l -> FInv (u_src s l).
Proof. intros [HA [_ M]] S. split; [exact HA|split; assumption]. Qed.
Lemma finv_push s src : FInv s -> src_ok src -> FInv (push_src s src).
Proof.
  intros H Hs. unfold push_src. apply finv_src; [exact H|]. constructor; [exact Hs|apply H].
Qed.
Lemma finv_bump s : FInv s -> FInv (snd (bump s)). Proof. intro H; exact H. Qed.

(* one raw token from a well-formed source: never the crash outcome, and the rest is well formed *)
Lemma src_next_ok src : src_ok src ->
  match src_next src with
  | RCrash => False
  | REnd => True
  | RTok _ src' => src_ok src'
  end.
Proof.
  destruct src as [ts|body args ent cur]; cbn [src_next src_ok].
  - destruct ts; cbn; auto.
  - intros [Hok Hwf].
    pose proof (macro_next_spec args ent (S (S (length body + length body))) body cur) as H.
    assert (Hm : (measure body cur < S (S (length body + length body)))%nat)
      by (unfold measure; destruct cur; lia).
    specialize (H Hm Hok Hwf).
    destruct (remaining body args ent cur) as [|t r].
    + rewrite H. exact I.
    + destruct H as [b2 [c2 [E [_ [W [O _]]]]]]. rewrite E. cbn [src_ok]. split; assumption.
Qed.

(* ---- the expression ladder over a peek that keeps the invariant -------------------------------- *)
Section Ladder.
  Variable pk : fstate -> outcome (option token * fstate).
  Hypothesis pk_good : forall s, FInv s -> good post (pk s).

  Notation gres_good r := (good (@post pexp) r).
  Definition sub_good (p : fstate -> gres fstate) : Prop := forall s, FInv s -> gres_good (p s).

  Lemma gnx_good s : FInv s -> good post (gnx fstate pk drop s).
  Proof.
    intro H. unfold gnx. pose proof (pk_good s H) as Hp.
    destruct (pk s) as [[t s1]| |]; cbn [good] in *; auto.
  Qed.

  Lemma gbinloop_good sub : sub_good sub -> forall n ops lhs s, FInv s -> gres_good (gbinloop fstate pk drop n ops sub lhs s).
  Proof.
    intros Hs. induction n as [|n IH]; intros ops lhs s H; cbn [gbinloop];
      pose proof (pk_good s H) as Hp; destruct (pk s) as [[t s1]| |]; cbn [good] in *; auto;
      unfold post in Hp; cbn [snd] in Hp;
      destruct t as [t|]; try exact Hp; destruct t; try exact Hp; destruct (ops s0); try exact Hp; cbn [good]; auto.
    pose proof (Hs (drop s1) Hp) as Hr.
    destruct (sub (drop s1)) as [[rhs s2]| |]; cbn [good] in *; auto.
  Qed.

  Lemma gplevel_good n ops sub : sub_good sub -> sub_good (gplevel fstate pk drop n ops sub).
  Proof.
    intros Hs s H. unfold gplevel. pose proof (Hs s H) as Hr.
    destruct (sub s) as [[l s1]| |]; cbn [good] in *; auto. apply gbinloop_good; auto.
  Qed.

  Lemma gchain_good n ls base : sub_good base -> sub_good (gchain fstate pk drop n ls base).
  Proof. intro Hb. induction ls as [|o ls IH]; cbn [gchain]; auto. apply gplevel_good. exact IH. Qed.

  Lemma gp0_of_good n p : sub_good p -> sub_good (gp0_of fstate pk drop n p).
  Proof.
    intros Hp s H. unfold gp0_of.
    pose proof (gchain_good n levels p Hp) as H1. set (q := gchain fstate pk drop n levels p) in *.
    pose proof (H1 s H) as Ha. destruct (q s) as [[c s1]| |]; cbn [good] in *; auto.
    pose proof (pk_good s1 Ha) as Hk. destruct (pk s1) as [[t s2]| |]; cbn [good] in *; auto.
    unfold post in Hk; cbn [snd] in Hk.
    destruct t as [t|]; try exact Hk. destruct t; try exact Hk. destruct s0; try exact Hk.
    pose proof (H1 (drop s2) Hk) as Hb. destruct (q (drop s2)) as [[a s3]| |]; cbn [good] in *; auto.
    pose proof (pk_good s3 Hb) as Hk3. destruct (pk s3) as [[t3 s4]| |]; cbn [good] in *; auto.
    unfold post in Hk3; cbn [snd] in Hk3.
    destruct t3 as [t3|]; cbn [good]; auto. destruct t3; cbn [good]; auto. destruct s0; cbn [good]; auto.
    pose proof (H1 (drop s4) Hk3) as Hc. destruct (q (drop s4)) as [[b s5]| |]; cbn [good] in *; auto.
  Qed.

  Lemma gp11_good n : forall f, sub_good (gp11 fstate pk drop n f).
  Proof.
    induction f as [|f IH]; intros s H; cbn [gp11 good]; auto.
    pose proof (pk_good s H) as Hk. destruct (pk s) as [[t s1]| |]; cbn [good] in *; auto.
    unfold post in Hk; cbn [snd] in Hk.
    destruct t as [t|]; cbn [good]; auto.
    destruct t; cbn [good]; auto; try exact Hk.
    - (* directive *)
      destruct d; cbn [good]; auto; try exact Hk.
      pose proof (gnx_good (drop s1) Hk) as Hn.
      destruct (gnx fstate pk drop (drop s1)) as [[t2 s2]| |]; cbn [good] in *; auto.
      destruct t2 as [t2|]; cbn [good]; auto. destruct t2; cbn [good]; auto.
    - (* symbol *)
      destruct s0; cbn [unop_of_sym good]; auto;
        try (pose proof (IH (drop s1) Hk) as Hr; destruct (gp11 fstate pk drop n f (drop s1)) as [[e s2]| |]; cbn [good] in *; auto; fail).
      pose proof (gp0_of_good n (gp11 fstate pk drop n f) IH (drop s1) Hk) as Hr.
      destruct (gp0_of fstate pk drop n (gp11 fstate pk drop n f) (drop s1)) as [[e s2]| |]; cbn [good] in *; auto.
      pose proof (pk_good s2 Hr) as Hk2. destruct (pk s2) as [[t2 s3]| |]; cbn [good] in *; auto.
      destruct t2 as [t2|]; cbn [good]; auto. destruct t2; cbn [good]; auto. destruct s0; cbn [good]; auto.
  Qed.

  Lemma gptree_good n : sub_good (gptree fstate pk drop n).
  Proof. intros s H. unfold gptree. apply gp0_of_good; auto. apply gp11_good. Qed.
End Ladder.

(* ---- expressions through the pump ----------------------------------------------------------------- *)
Section Pump.
  Variable budget : nat.

  Lemma touch_inv s ns : FInv s -> FInv (touch_nodes s ns).
  Proof. intro H. unfold touch_nodes. apply finv_a; [exact H|]. apply inv_w_refs. apply H. Qed.

  Section WithPk.
    Variable pk : fstate -> outcome (option token * fstate).
    Hypothesis pk_good : forall s, FInv s -> good post (pk s).

    Lemma g_expr_good s :
      FInv s -> good (fun x => FInv (snd x) /\ compiled (fst x)) (g_expr budget pk s).
    Proof.
      intro H. unfold g_expr.
      eapply good_bind; [apply (gptree_good pk pk_good budget s H)|].
      intros [e s1] H1. unfold post in H1. cbn [snd] in H1.
      destruct (resolve (f_ctx s1) e) as [c| |c] eqn:R; cbn [bind good]; auto.
      - cbn [fst snd]. split; [apply touch_inv; exact H1|exists c; reflexivity].
      - exfalso. eapply resolve_no_crash; eauto.
    Qed.

    Lemma g_const_good s : FInv s -> good post (g_const budget pk s).
    Proof.
      intro H. unfold g_const. eapply good_bind; [apply g_expr_good; exact H|].
      intros [ns s1] [H1 HN]. cbn [fst snd] in *.
      destruct (eval_top (a_st (f_a s1)) ns) eqn:E; cbn [good]; auto.
      exfalso. eapply eval_compiled; [apply H1|exact HN|exact E].
    Qed.

    (* next = peek + forget *)
    Definition nx_of (s : fstate) : outcome (option token * fstate) := bind (pk s) (fun p => let '(t, s1) := p in Ok (t, drop s1)).
    Lemma nx_good s : FInv s -> good post (nx_of s).
    Proof.
      intro H. unfold nx_of. eapply good_bind; [apply pk_good; exact H|].
      intros [t s1] H1. exact H1.
    Qed.
  End WithPk.

  (* ---- argument / list / text / body collection over any next that keeps the invariant ---- *)
  Section Collect.
    Variable nx : fstate -> outcome (option token * fstate).
    Hypothesis nx_ok : forall s, FInv s -> good post (nx s).

    Lemma collect_arg_good : forall n depth acc s, FInv s -> good post (collect_arg nx n depth acc s).
    Proof.
      induction n as [|n IH]; intros depth acc s H; cbn [collect_arg good]; auto.
      eapply good_bind; [apply nx_ok; exact H|]. intros [t s1] H1. unfold post in H1; cbn [snd] in H1.
      destruct t as [t|]; cbn [good]; auto.
      destruct t; try (destruct (depth =? 0)%Z; [exact H1|apply IH; exact H1]); try (apply IH; exact H1).
      destruct s0; try (destruct (depth =? 0)%Z; [exact H1|apply IH; exact H1]).
      - apply IH; exact H1.
      - destruct (depth - 1 =? 0)%Z; [exact H1|apply IH; exact H1].
    Qed.

    Lemma collect_args_good n : forall k total acc s, FInv s ->
      good (fun x => FInv (snd x) /\ length (fst x) = (length acc + k)%nat) (collect_args nx n k total acc s).
    Proof.
      induction k as [|k IH]; intros total acc s H; cbn [collect_args good].
      - cbn [fst snd]. split; [exact H|lia].
      - eapply good_bind; [apply collect_arg_good; exact H|]. intros [a s1] H1. unfold post in H1; cbn [snd] in H1.
        destruct k as [|k'].
        + cbn [good fst snd]. split; [exact H1|rewrite app_length; cbn; lia].
        + eapply good_bind; [apply nx_ok; exact H1|]. intros [t s2] H2. unfold post in H2; cbn [snd] in H2.
          destruct t as [t|]; cbn [good]; auto. destruct t; cbn [good]; auto. destruct s0; cbn [good]; auto.
          pose proof (IH total (acc ++ [a]) s2 H2) as Hr.
          eapply good_weaken; [|exact Hr]. intros x [Hx Hl]. split; [exact Hx|].
          rewrite Hl, app_length. cbn. lia.
    Qed.

    Lemma collect_list_good : forall n depth acc s, FInv s -> good post (collect_list nx n depth acc s).
    Proof.
      induction n as [|n IH]; intros depth acc s H; cbn [collect_list good]; auto.
      eapply good_bind; [apply nx_ok; exact H|]. intros [t s1] H1. unfold post in H1; cbn [snd] in H1.
      destruct t as [t|]; cbn [good]; auto.
      destruct t; try (destruct (depth =? 0)%Z; [exact H1|apply IH; exact H1]); try (apply IH; exact H1).
      destruct s0; try (destruct (depth =? 0)%Z; [exact H1|apply IH; exact H1]).
      - apply IH; exact H1.
      - destruct (depth - 1 =? 0)%Z; [exact H1|]. apply IH; exact H1.
    Qed.

    Lemma collect_text_good : forall n depth acc s, FInv s -> good post (collect_text nx n depth acc s).
    Proof.
      induction n as [|n IH]; intros depth acc s H; cbn [collect_text good]; auto.
      eapply good_bind; [apply nx_ok; exact H|]. intros [t s1] H1. unfold post in H1; cbn [snd] in H1.
      assert (Hc : forall d acc', good post (if (d =? 0)%Z then Ok (acc', s1) else collect_text nx n d acc' s1)).
      { intros d acc'. destruct (d =? 0)%Z; [exact H1|apply IH; exact H1]. }
      destruct t as [t|]; cbn [good]; auto.
      destruct t; cbn [good]; auto; try apply Hc.
      destruct s0; try apply Hc.
      destruct (depth - 1 =? 0)%Z; [exact H1|first [apply Hc | apply IH; exact H1]].
    Qed.

    (* the recorded @each body only has the slot 0 *)
    Definition only_slot0 (body : list mtok) : Prop := forall i, In (MArg i) body -> i = 0%nat.

    Lemma each_body_good : forall n var acc s, FInv s -> only_slot0 acc ->
      good (fun x => FInv (snd x) /\ only_slot0 (fst x)) (each_body nx n var acc s).
    Proof.
      induction n as [|n IH]; intros var acc s H Ha; cbn [each_body good]; auto.
      eapply good_bind; [apply nx_ok; exact H|]. intros [t s1] H1. unfold post in H1; cbn [snd] in H1.
      assert (Hsn : forall m, (forall i, m = MArg i -> i = 0%nat) -> only_slot0 (acc ++ [m])).
      { intros m Hm i Hi. apply in_app_or in Hi. destruct Hi as [Hi|[Hi|[]]]; [apply Ha; exact Hi|apply Hm; auto]. }
      destruct t as [t|]; cbn [good]; auto.
      destruct t; try (apply IH; [exact H1|apply Hsn; intros i Hi; discriminate]).
      - destruct d; try (apply IH; [exact H1|apply Hsn; intros i Hi; discriminate]).
        cbn [good fst snd]. split; assumption.
      - destruct k; try (apply IH; [exact H1|apply Hsn; intros i Hi; discriminate]).
        apply IH; [exact H1|]. apply Hsn. intros i Hi. destruct (bytes_eqb s0 var); [inversion Hi; reflexivity|discriminate].
    Qed.
  End Collect.
End Pump.

(* ---- peek ---------------------------------------------------------------------------------------- *)
Section Peek.
  Variable budget : nat.

  Lemma src_ok_plain body ent : (forall i, ~ In (MArg i) body) -> src_ok (SrcMacro body [] ent None).
  Proof. intro H. split; [|exact I]. intros i Hi. exfalso. eapply H; eauto. Qed.

  Lemma no_args_count : forall k i j, ~ In (MArg j) (count_toks k i).
  Proof. induction k as [|k IH]; intros i j; cbn; [auto|]. intros [E|H]; [discriminate|eapply IH; eauto]. Qed.

  Lemma with_stash_ok body s : FInv s -> (forall i, ~ In (MArg i) body) ->
    FInv (snd (with_stash body s)) /\ (forall i, ~ In (MArg i) (fst (with_stash body s))).
  Proof.
    intros H Hb. unfold with_stash. destruct (f_stash s) as [t|]; cbn [fst snd].
    - split; [exact H|]. intros i Hi. apply in_app_or in Hi. destruct Hi as [Hi|[Hi|[]]]; [eapply Hb; eauto|discriminate].
    - split; assumption.
  Qed.

  Lemma pk_loop_good pk' : (forall s, FInv s -> good post (pk' s)) ->
    forall n s, FInv s -> good post (pk_loop budget pk' n s).
  Proof.
    intros Hpk. pose proof (nx_good pk' Hpk) as Hnx.
    induction n as [|n IH]; intros s H; cbn [pk_loop good]; auto.
    change (fun s0 : fstate => bind (pk' s0) (fun p => let '(t, s1) := p in Ok (t, drop s1))) with (nx_of pk').
    destruct (f_stash s) as [ts|] eqn:Est; [exact H|].
    destruct (f_src s) as [|[src dir] rest] eqn:Esrc; [exact H|].
    assert (Hs : src_ok src /\ Forall (fun sd => src_ok (fst sd)) rest).
    { destruct H as [_ [Hf _]]. rewrite Esrc in Hf. inversion Hf; subst. auto. }
    destruct Hs as [Hs Hrest].
    pose proof (src_next_ok src Hs) as Hn.
    destruct (src_next src) as [t src1| |]; [|apply IH; apply finv_src; auto|contradiction].
    set (s1 := u_src s ((src1, dir) :: rest)).
    assert (H1 : FInv s1) by (apply finv_src; [exact H|constructor; auto]).
    assert (Hplain : good post (Ok (Some t, u_stash s1 (Some t)))) by exact H1.
    destruct t as [| | | | |d| | |y|k v]; try (destruct (f_recording s); exact Hplain).
    - (* directives *)
      destruct (f_recording s); [exact Hplain|].
      destruct d; try exact Hplain.
      + (* @isdef *)
        eapply good_bind; [apply Hnx; exact H1|]. intros [t1 s2] H2. unfold post in H2; cbn [snd] in H2.
        destruct t1 as [t1|]; cbn [good]; auto. destruct t1; cbn [good]; auto.
        destruct (pump_qualify s2 k s0) as [direct| |c] eqn:Q; cbn [bind good]; auto;
          try (exfalso; unfold pump_qualify in Q; eapply qualify_no_crash; eauto; fail); try (apply IH; exact H2).
      + (* @string *)
        eapply good_bind; [apply (collect_text_good (nx_of pk') Hnx); exact H1|].
        intros [txt s2] H2. apply IH. exact H2.
      + (* @bin *)
        eapply good_bind; [apply (g_const_good budget pk' Hpk); exact H1|]. intros [v s2] H2. unfold post in H2; cbn [snd] in H2.
        destruct (bump s2) as [ent s3] eqn:Eb. assert (H3 : FInv s3) by (change s3 with (snd (ent, s3)); rewrite <- Eb; exact H2).
        pose proof (with_stash_ok [MTok (TString (fmt_bin v))] s3 H3) as Hw.
        destruct (with_stash [MTok (TString (fmt_bin v))] s3) as [body s4]. cbn [fst snd] in Hw.
        destruct Hw as [H4 Hb]; [intros i [Hi|[]]; discriminate|].
        apply IH. apply finv_push; [exact H4|apply src_ok_plain; exact Hb].
      + (* @hex *)
        eapply good_bind; [apply (g_const_good budget pk' Hpk); exact H1|]. intros [v s2] H2. unfold post in H2; cbn [snd] in H2.
        destruct (bump s2) as [ent s3] eqn:Eb. assert (H3 : FInv s3) by (change s3 with (snd (ent, s3)); rewrite <- Eb; exact H2).
        pose proof (with_stash_ok [MTok (TString (fmt_hex v))] s3 H3) as Hw.
        destruct (with_stash [MTok (TString (fmt_hex v))] s3) as [body s4]. cbn [fst snd] in Hw.
        destruct Hw as [H4 Hb]; [intros i [Hi|[]]; discriminate|].
        apply IH. apply finv_push; [exact H4|apply src_ok_plain; exact Hb].
      + (* @label *)
        eapply good_bind; [apply (collect_text_good (nx_of pk') Hnx); exact H1|].
        intros [txt s2] H2. unfold post in H2; cbn [snd] in H2.
        destruct (label_of_text txt) as [tk| |c] eqn:L; cbn [bind good]; auto; try (apply IH; exact H2).
        exfalso. unfold label_of_text in L. destruct (Nat.ltb 1 (words txt false)); [discriminate|].
        destruct (count_dots txt) as [|[|?]]; discriminate.
      + (* @getmeta *)
        eapply good_bind; [apply Hnx; exact H1|]. intros [t1 s2] H2. unfold post in H2; cbn [snd] in H2.
        destruct t1 as [t1|]; cbn [good]; auto. destruct t1; cbn [good]; auto.
        destruct (pump_qualify s2 k s0) as [direct| |c] eqn:Q; cbn [bind good]; auto;
          try (exfalso; unfold pump_qualify in Q; eapply qualify_no_crash; eauto; fail).
        eapply good_bind; [apply Hnx; exact H2|]. intros [t2 sb] H3. unfold post in H3; cbn [snd] in H3.
        destruct t2 as [t2|]; cbn [good]; auto. destruct t2 as [| | | | | | | |y2|]; cbn [good]; auto. destruct y2; cbn [good]; auto.
        eapply good_bind; [apply Hnx; exact H3|]. intros [t3 sc] H4. unfold post in H4; cbn [snd] in H4.
        destruct t3 as [t3|]; cbn [good]; auto. destruct t3; cbn [good]; auto.
        destruct (bump sc) as [ent sd] eqn:Eb. assert (H5 : FInv sd) by (change sd with (snd (ent, sd)); rewrite <- Eb; exact H4).
        apply IH. apply finv_push; [exact H5|]. apply src_ok_plain.
        intros i Hi. destruct (lookup (a_st (f_a sc)) direct).
        * apply in_map_iff in Hi. destruct Hi as [kv [E _]]. discriminate.
        * destruct Hi as [E|[]]. discriminate.
      + (* @each *)
        eapply good_bind; [apply Hnx; exact H1|]. intros [t1 s2] H2. unfold post in H2; cbn [snd] in H2.
        destruct t1 as [t1|]; cbn [good]; auto. destruct t1; cbn [good]; auto. destruct k; cbn [good]; auto.
        eapply good_bind; [apply Hnx; exact H2|]. intros [t2 sb] H3. unfold post in H3; cbn [snd] in H3.
        destruct t2 as [t2|]; cbn [good]; auto. destruct t2 as [| | | | | | | |y2|]; cbn [good]; auto. destruct y2; cbn [good]; auto.
        eapply good_bind; [apply (collect_list_good (nx_of pk') Hnx); exact H3|]. intros [elems sc] H4. unfold post in H4; cbn [snd] in H4.
        destruct (bump sc) as [ent sd] eqn:Eb. assert (H5 : FInv sd) by (change sd with (snd (ent, sd)); rewrite <- Eb; exact H4).
        eapply good_bind; [apply (each_body_good (nx_of pk') Hnx budget s0 [] sd H5); intros i []|].
        intros [body se] [H6 Hb]. cbn [fst snd] in *.
        apply IH. apply finv_src; [exact H6|]. apply Forall_app. split; [|apply H6].
        apply Forall_forall. intros sx Hsx. apply in_map_iff in Hsx. destruct Hsx as [e [<- _]]. cbn [fst src_ok].
        split; [|exact I]. intros i Hi. rewrite (Hb i Hi). cbn. lia.
      + (* @count *)
        eapply good_bind; [apply (g_const_good budget pk' Hpk); exact H1|]. intros [v s2] H2. unfold post in H2; cbn [snd] in H2.
        destruct (v <? 0)%Z; cbn [good]; auto.
        destruct (bump s2) as [ent s3] eqn:Eb. assert (H3 : FInv s3) by (change s3 with (snd (ent, s3)); rewrite <- Eb; exact H2).
        pose proof (with_stash_ok (count_toks (Z.to_nat v) 0) s3 H3) as Hw.
        destruct (with_stash (count_toks (Z.to_nat v) 0) s3) as [body s4]. cbn [fst snd] in Hw.
        destruct Hw as [H4 Hb]; [intros i; apply no_args_count|].
        apply IH. apply finv_push; [exact H4|apply src_ok_plain; exact Hb].
      + (* @parse *)
        eapply good_bind; [apply Hnx; exact H1|]. intros [t1 s2] H2. unfold post in H2; cbn [snd] in H2.
        destruct t1 as [t1|]; cbn [good]; auto. destruct t1; cbn [good]; auto.
        destruct (assoc_b (f_lex s2) s0); cbn [good]; auto.
        apply IH. apply finv_push; [exact H2|exact I].
    - (* symbols: the backslash *)
      destruct y; try (destruct (f_recording s); exact Hplain).
      assert (Hs1 : src_ok src1) by exact Hn.
      pose proof (src_next_ok src1 Hs1) as Hn1.
      destruct (src_next src1) as [t2 src2| |]; cbn [good]; auto; [|contradiction].
      destruct t2; cbn [good]; auto; apply IH; apply finv_src; auto.
    - (* labels: a macro invocation *)
      destruct (f_recording s); [exact Hplain|].
      destruct k; try exact Hplain.
      destruct (assoc_b (f_macros s1) v) as [m|] eqn:Em; [|exact Hplain].
      eapply good_bind; [apply (collect_args_good (nx_of pk') Hnx budget (m_nargs m) (m_nargs m) [] s1 H1)|].
      intros [args s2] [H2 Hl]. cbn [fst snd length] in *.
      destruct (bump s2) as [ent s3] eqn:Eb. assert (H3 : FInv s3) by (change s3 with (snd (ent, s3)); rewrite <- Eb; exact H2).
      apply IH. apply finv_push; [exact H3|]. split; [|exact I].
      assert (Hm : mac_ok m).
      { destruct H1 as [_ [_ Hmac]]. clear - Em Hmac. induction (f_macros s1) as [|[k0 m0] l IHl]; cbn in Em; [discriminate|].
        inversion Hmac; subst. destruct (bytes_eqb k0 v); [inversion Em; subst; auto|auto]. }
      intros i Hi. rewrite Hl. apply Hm. exact Hi.
  Qed.

  Theorem pk_good : forall d s, FInv s -> good post (pk budget d s).
  Proof.
    induction d as [|d IH]; intros s H; cbn [pk good]; auto.
    apply pk_loop_good; auto.
  Qed.
End Peek.

(* ---- statements over the pump ------------------------------------------------------------------------ *)
Section Stmt.
  Variable budget : nat.
  Variable rows : list row.
  Hypothesis rows_ok : rows_wf rows = true.

  Notation PK := (PK budget).
  Notation NX := (NX budget).

  Lemma PK_good s : FInv s -> good post (PK s).
  Proof. apply pk_good. Qed.
  Lemma NX_good s : FInv s -> good post (NX s).
  Proof.
    intro H. unfold Full.NX. eapply good_bind; [apply PK_good; exact H|]. intros [t s1] H1. exact H1.
  Qed.
  Lemma f_expr_good s : FInv s -> good (fun x => FInv (snd x) /\ compiled (fst x)) (f_expr budget s).
  Proof. apply g_expr_good. apply PK_good. Qed.
  Lemma f_const_good s : FInv s -> good post (f_const budget s).
  Proof. apply g_const_good. apply PK_good. Qed.
  Lemma peek_is_good y s : FInv s -> good post (peek_is budget y s).
  Proof.
    intro H. unfold peek_is. eapply good_bind; [apply PK_good; exact H|]. intros [t s1] H1. exact H1.
  Qed.
  Lemma expect_good y s : FInv s -> good FInv (expect budget y s).
  Proof.
    intro H. unfold expect. eapply good_bind; [apply NX_good; exact H|]. intros [t s1] H1.
    destruct (is_sym y t); cbn [good]; auto.
  Qed.
  Lemma with_a_inv s f : FInv s -> Inv (f (f_a s)) -> FInv (with_a s f).
  Proof. intros H HA. unfold with_a. apply finv_a; assumption. Qed.
  Lemma ins_value s k v m : FInv s -> FInv (ins s k {| e_sym := SValue v; e_meta := m |}).
  Proof. intro H. unfold ins. apply with_a_inv; [exact H|]. apply inv_w_st; [apply H|]. apply wf_insert_value. apply H. Qed.
  Lemma ins_expr s k ns m : FInv s -> compiled ns -> FInv (ins s k {| e_sym := SExpr ns; e_meta := m |}).
  Proof. intros H C. unfold ins. apply with_a_inv; [exact H|]. apply inv_w_st; [apply H|]. apply wf_insert_expr; [exact C|apply H]. Qed.

  Definition fm_post (x : fstate * list titem * list (fkind * list node)) : Prop :=
    FInv (fst (fst x)) /\ SafeFacts.args_ok (snd x) /\ fields_below (length (snd x)) (snd (fst x)).

  Lemma fmatch_good : forall fuel ws s args,
    FInv s -> SafeFacts.args_ok args -> Forall (work_ok (length args)) ws ->
    good fm_post (fmatch budget fuel ws s args).
  Proof.
    induction fuel as [|f IH]; intros ws s args HI HA HW; cbn [fmatch good]; auto.
    eapply good_bind; [apply PK_good; exact HI|]. intros [t s1] H1. unfold post in H1; cbn [snd] in H1.
    destruct (heads (fun p => tok_matches p t) ws) as [|w0 l0] eqn:Ec.
    2: { rewrite <- Ec. apply IH; [exact H1|exact HA|].
         apply drop1_plain; [|exact HW]. intros p Hp. destruct p; try reflexivity; destruct t as [[]|]; discriminate. }
    destruct (heads is_sel ws) as [|w1 l1] eqn:Es.
    2: { eapply good_bind; [apply f_const_good; exact H1|]. intros [v s2] H2. unfold post in H2; cbn [snd] in H2.
         destruct (heads (is_sel_v v) ws) as [|w2 l2] eqn:Ev; cbn [good]; auto.
         rewrite <- Ev. apply IH; [exact H2|exact HA|].
         apply drop1_plain; [|exact HW]. intros p Hp. destruct p; try reflexivity; discriminate. }
    destruct (find_done ws) as [tm|] eqn:Ef.
    { cbn [good]. unfold fm_post. cbn [fst snd]. split; [exact H1|]. split; [exact HA|]. eapply find_done_ok; eauto. }
    destruct (heads is_expr ws) as [|w3 l3] eqn:Ee.
    2: { eapply good_bind; [apply f_expr_good; exact H1|]. intros [ns s2] [H2 HN]. cbn [fst snd] in *. rewrite <- Ee.
         apply IH; [exact H2|apply args_ok_snoc; auto|].
         rewrite app_length. cbn [length]. rewrite Nat.add_1_r.
         apply drop1_expr; [|exact HW]. intros p Hp. destruct p; try discriminate; reflexivity. }
    destruct (heads is_zpabs ws) as [|w4 l4] eqn:Ez; cbn [good]; auto.
    rewrite <- Ez. set (za := heads is_zpabs ws).
    assert (HZ : Forall (work_ok (length args)) za) by (apply heads_forall; exact HW).
    eapply good_bind; [apply f_expr_good; exact H1|]. intros [ns s2] [H2 HN]. cbn [fst snd] in *.
    assert (Hzp : forall k, good fm_post (fmatch budget f (drop1 (heads is_zp za)) s2 (args ++ [(k, ns)]))).
    { intros k. apply IH; [exact H2|apply args_ok_snoc; auto|].
      rewrite app_length. cbn [length]. rewrite Nat.add_1_r.
      apply drop1_expr; [|exact HZ]. intros p Hp. destruct p; try discriminate; reflexivity. }
    assert (Hab : forall k, good fm_post (fmatch budget f (drop1 (heads is_abs za)) s2 (args ++ [(k, ns)]))).
    { intros k. apply IH; [exact H2|apply args_ok_snoc; auto|].
      rewrite app_length. cbn [length]. rewrite Nat.add_1_r.
      apply drop1_expr; [|exact HZ]. intros p Hp. destruct p; try discriminate; reflexivity. }
    unfold A. destruct (eval_top (a_st (f_a s2)) ns) as [val| |cc] eqn:E; cbn [good].
    - destruct (heads is_zp za) as [|w5 l5] eqn:Ezp.
      + destruct (fits_u16 val); cbn [good]; auto.
      + rewrite <- Ezp in Hzp |- *. destruct (fits_u8 val); [apply Hzp|].
        destruct (fits_u16 val); cbn [good]; auto.
    - apply Hab.
    - exfalso. eapply eval_compiled; [apply H2|exact HN|exact E].
  Qed.

  Lemma lift_good s r : FInv s -> good Inv r -> good FInv (lift s r).
  Proof.
    intros H Hr. unfold lift. eapply good_bind; [exact Hr|]. intros a Ha. cbn [good]. apply finv_a; assumption.
  Qed.

  Lemma f_arch_good op s : FInv s -> good FInv (f_arch budget rows op s).
  Proof.
    intro H. unfold f_arch.
    set (ws := map (fun r => (r_pat r, r_tmpl r)) (filter (fun r => N.eqb (r_op r) op) rows)).
    assert (HW : Forall (work_ok (length (@nil (fkind * list node)))) ws).
    { unfold ws. apply Forall_forall. intros w Hw. apply in_map_iff in Hw. destruct Hw as [r [<- Hr]].
      apply filter_In in Hr. destruct Hr as [Hr _].
      pose proof rows_ok as Hwf. unfold rows_wf in Hwf. rewrite forallb_forall in Hwf. pose proof (Hwf r Hr) as H0.
      unfold row_wf in H0. rewrite forallb_forall in H0.
      unfold work_ok. cbn [fst snd length]. intros i Hi. specialize (H0 _ Hi). cbn in H0.
      apply Nat.ltb_lt in H0. exact H0. }
    eapply good_bind; [apply (fmatch_good budget ws s [] H (Forall_nil _) HW)|].
    intros [[s1 tm] args] [H1 [HA HF]]. cbn [fst snd] in *.
    apply lift_good; [exact H1|]. apply emit_tmpl_good; auto. apply H1.
  Qed.
  Ltac gb lem H := eapply good_bind; [apply lem; exact H|].

  Lemma emitA s h bs : FInv s -> FInv (with_a s (fun a => w_data (w_here a h) (a_data a ++ bs))).
  Proof. intro H. apply with_a_inv; [exact H|]. apply (inv_emit (f_a s)). apply H. Qed.
  Lemma emitL s (hf : astate -> Z) k ns ph : FInv s -> compiled ns -> length ph = width k ->
    FInv (with_a s (fun a => push_link (w_here a (hf a)) k ns ph)).
  Proof. intros H C W. apply with_a_inv; [exact H|]. apply (inv_emit_link (f_a s)); auto. apply H. Qed.

  Lemma f_db_good : forall fuel s, FInv s -> good FInv (f_db budget fuel s).
  Proof.
    induction fuel as [|f IH]; intros s H; cbn [f_db good]; auto.
    assert (Hafter : forall s1, FInv s1 ->
              good FInv (bind (peek_is budget SyComma s1) (fun p => let '(c, s2) := p in if c then f_db budget f (drop s2) else Ok s2))).
    { intros s1 H1. gb peek_is_good H1. intros [c s2] H2. destruct c; [apply IH; exact H2|exact H2]. }
    gb PK_good H. intros [t s0] H0. unfold post in H0; cbn [snd] in H0.
    assert (Hexpr : good FInv
              (bind (f_expr budget s0) (fun p => let '(ns, s1) := p in
                 match eval_top (a_st (A s1)) ns with
                 | ECrash c => Crash c
                 | Val v =>
                   if negb (fits_u8 v) then Diag DkRange
                   else if (a_here (A s1) + 1 >? TOP)%Z then Diag DkTop
                   else bind (peek_is budget SyComma (with_a s1 (fun a => w_data (w_here a (a_here a + 1)%Z) (a_data a ++ [byte_of v]))))
                             (fun p => let '(c, s2) := p in if c then f_db budget f (drop s2) else Ok s2)
                 | Unsolved =>
                   if (a_here (A s1) + 1 >? TOP)%Z then Diag DkTop
                   else bind (peek_is budget SyComma (with_a s1 (fun a => push_link (w_here a (a_here a + 1)%Z) LByte ns [0%N])))
                             (fun p => let '(c, s2) := p in if c then f_db budget f (drop s2) else Ok s2)
                 end))).
    { gb f_expr_good H0. intros [ns s1] [H1 HN]. cbn [fst snd] in *. unfold A.
      destruct (eval_top (a_st (f_a s1)) ns) as [v| |cc] eqn:E; cbn [good].
      - destruct (negb (fits_u8 v)); cbn [good]; auto. destruct (_ >? TOP)%Z; cbn [good]; auto.
        apply Hafter. apply with_a_inv; [exact H1|]. apply (inv_emit (f_a s1)). apply H1.
      - destruct (_ >? TOP)%Z; cbn [good]; auto.
        apply Hafter. apply with_a_inv; [exact H1|]. apply (inv_emit_link (f_a s1)); [apply H1|exact HN|reflexivity].
      - exfalso. eapply eval_compiled; [apply H1|exact HN|exact E]. }
    destruct t as [t|]; [|exact Hexpr].
    destruct t; try exact Hexpr.
    destruct (_ >? TOP)%Z; cbn [good]; auto.
    apply Hafter. apply with_a_inv; [exact H0|]. apply (inv_emit (f_a (drop s0))). apply H0.
  Qed.

  Lemma f_dw_good : forall fuel s, FInv s -> good FInv (f_dw budget fuel s).
  Proof.
    induction fuel as [|f IH]; intros s H; cbn [f_dw good]; auto.
    assert (Hafter : forall s1, FInv s1 ->
              good FInv (bind (peek_is budget SyComma s1) (fun p => let '(c, s2) := p in if c then f_dw budget f (drop s2) else Ok s2))).
    { intros s1 H1. gb peek_is_good H1. intros [c s2] H2. destruct c; [apply IH; exact H2|exact H2]. }
    gb f_expr_good H. intros [ns s1] [H1 HN]. cbn [fst snd] in *. unfold A.
    destruct (eval_top (a_st (f_a s1)) ns) as [v| |cc] eqn:E; cbn [good].
    - destruct (negb (fits_u16 v)); cbn [good]; auto. destruct (_ >? TOP)%Z; cbn [good]; auto.
      apply Hafter. apply with_a_inv; [exact H1|]. apply (inv_emit (f_a s1)). apply H1.
    - destruct (_ >? TOP)%Z; cbn [good]; auto.
      apply Hafter. apply with_a_inv; [exact H1|]. apply (inv_emit_link (f_a s1)); [apply H1|exact HN|reflexivity].
    - exfalso. eapply eval_compiled; [apply H1|exact HN|exact E].
  Qed.

  Lemma f_meta_good : forall fuel s acc, FInv s -> good FInv (f_meta budget fuel s acc).
  Proof.
    induction fuel as [|f IH]; intros s acc H; cbn [f_meta good]; auto.
    gb NX_good H. intros [t1 s1] H1. unfold post in H1; cbn [snd] in H1.
    destruct t1 as [t1|]; cbn [good]; auto. destruct t1; cbn [good]; auto.
    gb NX_good H1. intros [t2 s2] H2. unfold post in H2; cbn [snd] in H2.
    destruct t2 as [t2|]; cbn [good]; auto. destruct t2; cbn [good]; auto.
    gb peek_is_good H2. intros [c sx3] H3. unfold post in H3; cbn [snd] in H3.
    destruct c; [apply IH; exact H3|]. cbn [good]. apply with_a_inv; [exact H3|]. apply inv_w_meta. apply H3.
  Qed.

  Lemma f_skip_if_good : forall fuel level s, FInv s -> good FInv (f_skip_if budget fuel level s).
  Proof.
    induction fuel as [|f IH]; intros level s H; cbn [f_skip_if good]; auto.
    gb NX_good H. intros [t s1] H1. unfold post in H1; cbn [snd] in H1.
    destruct t as [t|]; cbn [good]; auto.
    destruct t; try (apply IH; exact H1).
    destruct d; try (apply IH; exact H1).
    destruct level as [|[|l]]; cbn [good]; auto.
  Qed.

  Lemma f_struct_good : forall fuel name size s, FInv s -> good post (f_struct budget fuel name size s).
  Proof.
    induction fuel as [|f IH]; intros name size s H; cbn [f_struct good]; auto.
    gb NX_good H. intros [t s1] H1. unfold post in H1; cbn [snd] in H1.
    destruct t as [t|]; cbn [good]; auto.
    destruct t as [| | | | |d| | | |k field]; cbn [good]; auto; try (apply IH; exact H1).
    - destruct d; cbn [good]; auto.
      all: gb PK_good H1; intros [t2 s2] H2; unfold post in H2; cbn [snd] in H2.
      all: destruct t2; cbn [good]; auto; gb f_const_good H2; intros [v3 sx3] H3.
      all: try (destruct (v3 <? 2)%Z; cbn [good]; auto).
      all: apply IH; exact H3.
    - destruct k; cbn [good]; auto.
      destruct (defined _ _); cbn [good]; auto.
      gb peek_is_good H1. intros [c s2] H2. unfold post in H2; cbn [snd] in H2.
      set (sx3 := if c then drop s2 else s2). assert (H3 : FInv sx3) by (unfold sx3; destruct c; exact H2).
      gb PK_good H3. intros [t3 s4] H4. unfold post in H4; cbn [snd] in H4.
      assert (Hexpr : good post (bind (f_const budget s4) (fun p => let '(fs, s5) := p in
                 f_struct budget f name (wrap32 (size + fs)) (ins s5 (name ++ [46%N] ++ field) {| e_sym := SValue size; e_meta := size_meta fs |})))).
      { gb f_const_good H4. intros [fs s5] H5. apply IH. apply ins_value. exact H5. }
      destruct t3 as [t3|]; cbn [good]; auto.
      destruct t3; try exact Hexpr. destruct d; try exact Hexpr; apply IH; apply ins_value; exact H4.
  Qed.

  Lemma f_define_good s pf dup wm : FInv s -> good FInv (f_define budget s pf dup wm).
  Proof.
    intro H. unfold f_define. gb NX_good H. intros [t s1] H1. unfold post in H1; cbn [snd] in H1.
    destruct t as [t|]; cbn [good]; auto. destruct t; cbn [good]; auto.
    destruct (qualify (a_ns (A s1)) k s0) as [direct| |c] eqn:Q; cbn [bind good]; auto.
    2: { exfalso. eapply qualify_no_crash; eauto. }
    destruct (dup && defined _ _); cbn [good]; auto.
    eapply good_bind; [apply expect_good; exact H1|]. intros s2 H2.
    gb f_expr_good H2. intros [ns s3] [H3 HN]. cbn [fst snd good] in *. apply ins_expr; assumption.
  Qed.

  Lemma f_params_good : forall k acc s, FInv s -> good post (f_params budget k acc s).
  Proof.
    induction k as [|k IH]; intros acc s H; cbn [f_params good]; auto.
    eapply good_bind; [apply expect_good; exact H|]. intros s1 H1.
    gb NX_good H1. intros [t s2] H2. unfold post in H2; cbn [snd] in H2.
    destruct t as [t|]; cbn [good]; auto. destruct t; cbn [good]; auto. destruct k0; cbn [good]; auto.
  Qed.

  Definition slots_below (n : nat) (body : list mtok) : Prop := forall i, In (MArg i) body -> (i < n)%nat.

  Lemma slotify_below params t i : slotify params t = MArg i -> (i < length params)%nat.
  Proof.
    destruct t; try discriminate; [destruct d; discriminate|].
    destruct k; try discriminate. cbn [slotify].
    destruct (index_of s params 0) eqn:E; [|discriminate]. intro Hi. inversion Hi; subst.
    apply index_of_bound in E. lia.
  Qed.

  Lemma f_record_good params : forall fuel depth acc s, FInv s -> slots_below (length params) acc ->
    good (fun x => FInv (snd x) /\ slots_below (length params) (fst x)) (f_record budget fuel params depth acc s).
  Proof.
    induction fuel as [|f IH]; intros depth acc s H Ha; cbn [f_record good]; auto.
    gb NX_good H. intros [t s1] H1. unfold post in H1; cbn [snd] in H1.
    assert (Hsn : forall tk, slots_below (length params) (acc ++ [slotify params tk])).
    { intros tk i Hi. apply in_app_or in Hi. destruct Hi as [Hi|[Hi|[]]]; [apply Ha; exact Hi|eapply slotify_below; eauto]. }
    destruct t as [t|]; cbn [good]; auto.
    destruct t; try (apply IH; [exact H1|first [exact Ha|apply Hsn]]).
    destruct d; try (apply IH; [exact H1|first [exact Ha|apply Hsn]]).
    destruct depth; [cbn [good fst snd]; split; assumption|]. apply IH; [exact H1|apply Hsn].
  Qed.
  Lemma qual_good {B} (Q : B -> Prop) ns k v (f : bytes -> outcome B) :
    (forall d, good Q (f d)) -> good Q (bind (qualify ns k v) f).
  Proof.
    intro Hf. destruct (qualify ns k v) as [d| |c] eqn:E; cbn [bind good]; auto.
    exfalso. eapply qualify_no_crash; eauto.
  Qed.

  Lemma f_statement_good s t : FInv s -> good FInv (f_statement budget rows s t).
  Proof.
    intro H. unfold f_statement.
    destruct t as [| | | |id|d| | | |k v]; cbn [good]; auto.
    - (* instruction *)
      destruct (negb (a_code (A s))); cbn [good]; auto.
      eapply good_bind; [apply f_arch_good; exact H|]. intros s1 H1.
      destruct (_ >? TOP)%Z; cbn [good]; auto; try (apply with_a_inv; [exact H1|cbn beta]; apply inv_w_here; apply H1).
    - (* directives *)
      set (s0 := drop s). assert (H0 : FInv s0) by exact H.
      destruct d; cbn [good]; auto.
      + (* @org *) gb f_const_good H0. intros [v s1] H1. destruct (fits_u16 v); cbn [good]; auto; try (apply with_a_inv; [exact H1|cbn beta]; apply inv_w_here; apply H1).
      + (* @macro *)
        gb NX_good H0. intros [t1 s1] H1. unfold post in H1; cbn [snd] in H1.
        destruct t1 as [t1|]; cbn [good]; auto. destruct t1 as [| | | | | | | | |k1 name]; cbn [good]; auto. destruct k1; cbn [good]; auto.
        destruct (assoc_b (f_macros s1) name); cbn [good]; auto.
        eapply good_bind; [apply expect_good; exact H1|]. intros s2 H2.
        gb NX_good H2. intros [t2 sx3] H3. unfold post in H3; cbn [snd] in H3.
        destruct t2 as [t2|]; cbn [good]; auto. destruct t2 as [| | |cnt| | | | | |]; cbn [good]; auto.
        gb f_params_good H3. intros [params sx4] H4. unfold post in H4; cbn [snd] in H4.
        eapply good_bind; [apply (f_record_good params budget 0 [] (u_rec sx4 true)); [exact H4|intros i []]|].
        intros [body sx5] [H5 Hb]. cbn [fst snd good] in *.
        destruct H5 as [HA [HS HM]]. split; [exact HA|]. split; [exact HS|].
        constructor; [|exact HM]. cbn [snd]. intros i Hi. cbn [m_body m_nargs] in *. apply Hb. exact Hi.
      + apply f_define_good; exact H0.
      + apply f_define_good; exact H0.
      + apply f_define_good; exact H0.
      + apply f_define_good; exact H0.
      + (* @undef *)
        gb NX_good H0. intros [t1 s1] H1. unfold post in H1; cbn [snd] in H1.
        destruct t1 as [t1|]; cbn [good]; auto. destruct t1; cbn [good]; auto.
        apply qual_good. intro direct. cbn [good]. try (apply with_a_inv; [exact H1|cbn beta]; apply inv_w_st; [apply H1|]; apply wf_remove; apply H1).
      + (* @echo *)
        gb PK_good H0. intros [t1 s1] H1. unfold post in H1; cbn [snd] in H1.
        destruct t1 as [t1|]; cbn [good]; auto.
        destruct t1; cbn [good]; auto; try exact H1; gb f_const_good H1; intros [cv sx2] H2; exact H2.
      + (* @die *)
        gb PK_good H0. intros [t1 s1] H1. unfold post in H1; cbn [snd] in H1.
        destruct t1 as [t1|]; cbn [good]; auto.
        destruct t1; cbn [good]; auto; gb f_const_good H1; intros [cv sx2] H2; cbn [good]; auto.
      + (* @assert *)
        gb f_expr_good H0. intros [ns s1] [H1 HN]. cbn [fst snd] in *.
        gb peek_is_good H1. intros [c s2] H2. unfold post in H2; cbn [snd] in H2.
        eapply good_bind with (P := FInv).
        { destruct c; [|exact H2]. gb NX_good H2. intros [t2 sx3] H3. unfold post in H3; cbn [snd] in H3.
          destruct t2 as [t2|]; cbn [good]; auto. destruct t2; cbn [good]; auto. }
        intros sx3 H3. unfold A.
        destruct (eval_top (a_st (f_a sx3)) ns) as [val| |cc] eqn:E; cbn [good].
        * destruct (val =? 0)%Z; cbn [good]; auto.
        * apply with_a_inv; [exact H3|cbn beta]. destruct H3 as [[W L] _]. split; [exact W|]. cbn. apply Forall_app. split; [exact L|].
          constructor; [|constructor]. split; [exact HN|cbn; lia].
        * exfalso. eapply eval_compiled; [apply H3|exact HN|exact E].
      + (* @db *)
        destruct (a_code (A s0)); [apply f_db_good; exact H0|].
        destruct (_ >? TOP)%Z; cbn [good]; auto; try (apply with_a_inv; [exact H0|cbn beta]; apply inv_w_here; apply H0).
      + (* @dw *)
        destruct (a_code (A s0)); [apply f_dw_good; exact H0|].
        destruct (_ >? TOP)%Z; cbn [good]; auto; try (apply with_a_inv; [exact H0|cbn beta]; apply inv_w_here; apply H0).
      + (* @ds *)
        gb f_const_good H0. intros [size s1] H1. unfold post in H1; cbn [snd] in H1.
        destruct (negb (fits_u16 size)); cbn [good]; auto.
        destruct (_ >? TOP)%Z; cbn [good]; auto.
        set (s2 := with_a s1 (fun a => w_here a (a_here a + size)%Z)).
        assert (H2 : FInv s2) by (apply with_a_inv; [exact H1|cbn beta]; apply inv_w_here; apply H1).
        destruct (a_code (A s2)); [|exact H2].
        gb peek_is_good H2. intros [c sx3] H3. unfold post in H3; cbn [snd] in H3.
        destruct c.
        * gb f_expr_good H3. intros [ns sx4] [H4 HN]. cbn [fst snd] in *. unfold A.
          destruct (eval_top (a_st (f_a sx4)) ns) as [val| |cc] eqn:E; cbn [good].
          -- destruct (fits_u8 val); cbn [good]; auto. apply with_a_inv; [exact H4|cbn beta]. apply inv_append. apply H4.
          -- apply with_a_inv; [exact H4|cbn beta]. apply inv_push_link; [apply H4|exact HN|]. cbn [width]. apply repeat_length.
          -- exfalso. eapply eval_compiled; [apply H4|exact HN|exact E].
        * cbn [good]. apply with_a_inv; [exact H3|cbn beta]. apply inv_append. apply H3.
      + (* @include *)
        gb NX_good H0. intros [t1 s1] H1. unfold post in H1; cbn [snd] in H1.
        destruct t1 as [t1|]; cbn [good]; auto. destruct t1; cbn [good]; auto.
        destruct (filedata_of s1 (cur_dir s1) s2) as [[p fd]|]; cbn [good]; auto.
        destruct (fd_toks fd); cbn [good]; auto.
        apply finv_src; [exact H1|]. constructor; [exact I|apply H1].
      + (* @incbin *)
        destruct (negb (a_code (A s))); cbn [good]; auto.
        gb NX_good H0. intros [t1 s1] H1. unfold post in H1; cbn [snd] in H1.
        destruct t1 as [t1|]; cbn [good]; auto. destruct t1; cbn [good]; auto.
        destruct (filedata_of s1 (cur_dir s1) s2) as [[p fd]|]; cbn [good]; auto.
        destruct (_ >? TOP)%Z; cbn [good]; auto.
        apply with_a_inv; [exact H1|cbn beta]. apply (inv_emit (f_a s1)). apply H1.
      + (* @struct *)
        gb NX_good H0. intros [t1 s1] H1. unfold post in H1; cbn [snd] in H1.
        destruct t1 as [t1|]; cbn [good]; auto. destruct t1 as [| | | | | | | | |k1 name]; cbn [good]; auto. destruct k1; cbn [good]; auto.
        destruct (defined _ _); cbn [good]; auto.
        eapply good_bind; [apply f_struct_good; apply with_a_inv; [exact H1|apply inv_w_ns; apply H1]|].
        intros [size s2] H2. unfold post in H2; cbn [snd good] in *.
        apply ins_value. try (apply with_a_inv; [exact H2|cbn beta]; apply inv_w_ns; apply H2).
      + (* @align *)
        gb PK_good H0. intros [t1 s1] H1. unfold post in H1; cbn [snd] in H1.
        destruct t1; cbn [good]; auto.
        gb f_const_good H1. intros [al s2] H2. unfold post in H2; cbn [snd] in H2.
        destruct (al <? 2)%Z; cbn [good]; auto.
        destruct (_ >? 65535)%Z; cbn [good]; auto.
        destruct (_ >? TOP)%Z; cbn [good]; auto.
        apply with_a_inv; [exact H2|cbn beta]. cbn zeta.
        match goal with |- Inv (if a_code ?a2 then _ else _) => destruct (a_code a2) end.
        * apply (inv_append (w_here (f_a s2) _)). apply H2.
        * apply inv_w_here. apply H2.
      + (* @meta *) apply f_meta_good; exact H0.
      + (* @segment *)
        gb NX_good H0. intros [t1 s1] H1. unfold post in H1; cbn [snd] in H1.
        destruct t1 as [t1|]; cbn [good]; auto. destruct t1; cbn [good]; auto.
        destruct (_ || _); cbn [good]; [apply with_a_inv; [exact H1|cbn beta]; apply inv_w_code; apply H1|].
        destruct (_ || _); cbn [good]; auto; try (apply with_a_inv; [exact H1|cbn beta]; apply inv_w_code; apply H1).
      + (* @if *)
        gb f_const_good H0. intros [v s1] H1. unfold post in H1; cbn [snd] in H1.
        destruct (v =? 0)%Z; [apply f_skip_if_good; exact H1|]. cbn [good].
        try (apply with_a_inv; [exact H1|cbn beta]; apply inv_w_if; apply H1).
      + (* @endif *)
        destruct (a_if (A s0)); cbn [good]; auto; try (apply with_a_inv; [exact H0|cbn beta]; apply inv_w_if; apply H0).
    - (* label *)
      set (s0 := match k with LkGlobal => with_a s (fun a => w_ns a (Some v)) | _ => s end).
      assert (H0 : FInv s0).
      { unfold s0; destruct k; try exact H; try (apply with_a_inv; [exact H|cbn beta]; apply inv_w_ns; apply H). }
      apply qual_good. intro direct.
      destruct (defined _ _); cbn [good]; auto.
      eapply good_bind; [apply peek_is_good; apply finv_drop; apply ins_value; exact H0|].
      intros [c s2] H2. unfold post in H2; cbn [snd good] in *. destruct c; exact H2.
  Qed.

  Lemma f_parse_all_good : forall fuel s, FInv s -> good FInv (f_parse_all budget rows fuel s).
  Proof.
    induction fuel as [|f IH]; intros s H; cbn [f_parse_all good]; auto.
    gb PK_good H. intros [t s1] H1. unfold post in H1; cbn [snd] in H1.
    destruct t as [tk|]; [|exact H1].
    eapply good_bind; [apply f_statement_good; exact H1|]. intros s2 H2. apply IH. exact H2.
  Qed.
End Stmt.

(* C13: the whole front end and the linker, for every set of (already lexed) files, search paths, macro
   definitions, nesting and token sequence: the run ends in bytes, in a diagnostic, or by exhausting
   the model's own fuel - never in one of the modelled panic sites *)
Theorem run_full_never_panics budget rows names regs files lex cwd paths root c :
  rows_wf rows = true ->
  run_full budget rows names regs files lex cwd paths root = Crash c -> c = CkFuel.
Proof.
  intros Hwf H. unfold run_full in H.
  destruct (search filedata files cwd paths root) as [[p fd]|]; [|discriminate].
  destruct (fd_toks fd) as [ts|]; [|discriminate].
  match type of H with bind (f_parse_all _ _ _ ?s0) _ = _ => set (st0 := s0) in * end.
  assert (H0 : FInv st0).
  { unfold st0. split; [apply inv_init|]. split; cbn; [constructor; [exact I|constructor]|constructor]. }
  pose proof (f_parse_all_good budget rows Hwf budget st0 H0) as Hp.
  destruct (f_parse_all budget rows budget st0) as [s| |c0]; cbn [bind good] in *; try discriminate.
  - destruct Hp as [[W L] _].
    pose proof (link_all_good (a_st (f_a s)) (a_refs (f_a s)) (a_links (f_a s)) (a_data (f_a s)) W L) as Hl.
    destruct (link_all (a_st (f_a s)) (a_refs (f_a s)) (a_links (f_a s)) (a_data (f_a s))); cbn [bind good] in *; try discriminate.
    inversion H; subst. reflexivity.
  - inversion H; subst. reflexivity.
Qed.
