(* Base.v -- integers of the implementation (i32/u32/u16/u8 as Z), byte strings, outcomes.
   Model files contain definitions only; facts live in *Facts.v files. *)
From Coq Require Export List ZArith NArith Bool Lia.
Export ListNotations.
Open Scope Z_scope.

(* ---- machine integers ------------------------------------------------- *)
Definition two31 : Z := 2147483648.
Definition two32 : Z := 4294967296.

(* value of the 32-bit pattern of z read as a signed integer (Rust `as i32`, the wrapping_ operations) *)
Definition wrap32 (z : Z) : Z := (z + two31) mod two32 - two31.
(* `as u32`, `as u16`, `as u8` *)
Definition u32 (z : Z) : Z := z mod two32.
Definition u16 (z : Z) : Z := z mod 65536.
Definition u8  (z : Z) : Z := z mod 256.

Definition in_i32 (z : Z) : Prop := - two31 <= z < two31.
Definition in_i32b (z : Z) : bool := (- two31 <=? z) && (z <? two31).

Definition b2z (b : bool) : Z := if b then 1 else 0.

(* ---- byte strings and names ------------------------------------------- *)
Definition byte := N.
Definition bytes := list N.

Fixpoint bytes_eqb (a b : bytes) : bool :=
  match a, b with
  | [], [] => true
  | x :: a', y :: b' => N.eqb x y && bytes_eqb a' b'
  | _, _ => false
  end.

(* ---- outcomes ---------------------------------------------------------- *)
(* What a run of a piece of the assembler can do:
     Ok a      normal completion
     Diag k    the implementation reports an error message (build fails)
     Crash k   the implementation would panic / abort at this point
   [Crash] sites are written into the models explicitly wherever the Rust code has an
   unwrap on a possibly-None value, an index that may be out of range, an arithmetic
   operation that panics, or unbounded recursion (fuel exhaustion). *)
Inductive crash_kind := CkUnwrap | CkIndex | CkArith | CkFuel.
Inductive outcome (A : Type) :=
| Ok (a : A)
| Diag (k : N)
| Crash (c : crash_kind).
Arguments Ok {A} a.
Arguments Diag {A} k.
Arguments Crash {A} c.

Definition bind {A B} (m : outcome A) (f : A -> outcome B) : outcome B :=
  match m with
  | Ok a => f a
  | Diag k => Diag k
  | Crash c => Crash c
  end.
Notation "x <- m ;; f" := (bind m (fun x => f)) (at level 61, m at next level, right associativity).

(* diagnostic kinds (a small enum; the text of messages is never modelled) *)
Definition DkRange      : N := 1%N.   (* value does not fit its field *)
Definition DkUnsolved   : N := 2%N.   (* needs a value now / could not be solved at link time *)
Definition DkUndefined  : N := 3%N.   (* undefined symbol at link time *)
Definition DkTop        : N := 4%N.   (* bytes extend past $ffff *)
Definition DkRedefined  : N := 5%N.   (* already defined *)
Definition DkAssert     : N := 6%N.   (* assertion failed *)
Definition DkSyntax     : N := 7%N.   (* unexpected token / malformed *)
Definition DkNoScope    : N := 8%N.   (* local label without a global label *)
Definition DkSegment    : N := 9%N.   (* not allowed in ADDR segment *)
Definition DkDie        : N := 10%N.
Definition DkFile       : N := 11%N.  (* file not found / read error *)
Definition DkUtf8       : N := 12%N.
