(* Asm.v -- model of the statement loop of src/assembler/mod.rs (parse_all) over a token
   stream, with the shared evaluate-now-or-defer operand emitters.  Macro expansion / @include live
   in the pump model; here the token source is a plain token list. *)
From Az65 Require Import Base Token Expr CSpec ExprFacts ExprParse Linker.

Record astate := {
  a_toks : list token;
  a_st : symtab;
  a_refs : list bytes;             (* symbols touched by expressions (first-reference table) *)
  a_data : list N;
  a_links : list link;
  a_here : Z;
  a_ns : option bytes;
  a_code : bool;                   (* true: CODE segment, false: ADDR *)
  a_meta : list (bytes * bytes);   (* the metadata set in force *)
  a_if : nat;
}.

Definition a_init (ts : list token) : astate :=
  {| a_toks := ts; a_st := []; a_refs := []; a_data := []; a_links := []; a_here := 0;
     a_ns := None; a_code := true; a_meta := []; a_if := 0 |}.

(* record update helpers *)
Definition w_toks (s : astate) t := {| a_toks := t; a_st := a_st s; a_refs := a_refs s; a_data := a_data s; a_links := a_links s; a_here := a_here s; a_ns := a_ns s; a_code := a_code s; a_meta := a_meta s; a_if := a_if s |}.
Definition w_st (s : astate) t := {| a_toks := a_toks s; a_st := t; a_refs := a_refs s; a_data := a_data s; a_links := a_links s; a_here := a_here s; a_ns := a_ns s; a_code := a_code s; a_meta := a_meta s; a_if := a_if s |}.
Definition w_refs (s : astate) t := {| a_toks := a_toks s; a_st := a_st s; a_refs := t; a_data := a_data s; a_links := a_links s; a_here := a_here s; a_ns := a_ns s; a_code := a_code s; a_meta := a_meta s; a_if := a_if s |}.
Definition w_data (s : astate) t := {| a_toks := a_toks s; a_st := a_st s; a_refs := a_refs s; a_data := t; a_links := a_links s; a_here := a_here s; a_ns := a_ns s; a_code := a_code s; a_meta := a_meta s; a_if := a_if s |}.
Definition w_links (s : astate) t := {| a_toks := a_toks s; a_st := a_st s; a_refs := a_refs s; a_data := a_data s; a_links := t; a_here := a_here s; a_ns := a_ns s; a_code := a_code s; a_meta := a_meta s; a_if := a_if s |}.
Definition w_here (s : astate) t := {| a_toks := a_toks s; a_st := a_st s; a_refs := a_refs s; a_data := a_data s; a_links := a_links s; a_here := t; a_ns := a_ns s; a_code := a_code s; a_meta := a_meta s; a_if := a_if s |}.
Definition w_ns (s : astate) t := {| a_toks := a_toks s; a_st := a_st s; a_refs := a_refs s; a_data := a_data s; a_links := a_links s; a_here := a_here s; a_ns := t; a_code := a_code s; a_meta := a_meta s; a_if := a_if s |}.
Definition w_code (s : astate) t := {| a_toks := a_toks s; a_st := a_st s; a_refs := a_refs s; a_data := a_data s; a_links := a_links s; a_here := a_here s; a_ns := a_ns s; a_code := t; a_meta := a_meta s; a_if := a_if s |}.
Definition w_meta (s : astate) t := {| a_toks := a_toks s; a_st := a_st s; a_refs := a_refs s; a_data := a_data s; a_links := a_links s; a_here := a_here s; a_ns := a_ns s; a_code := a_code s; a_meta := t; a_if := a_if s |}.
Definition w_if (s : astate) t := {| a_toks := a_toks s; a_st := a_st s; a_refs := a_refs s; a_data := a_data s; a_links := a_links s; a_here := a_here s; a_ns := a_ns s; a_code := a_code s; a_meta := a_meta s; a_if := t |}.

(* ---- token access --------------------------------------------------------- *)
Definition peek (s : astate) : option token := hd_error (a_toks s).
Definition advance (s : astate) : astate := w_toks s (tl (a_toks s)).

Definition is_sym (y : sym) (t : option token) : bool :=
  match t with Some (TSym x) => sym_eqb x y | _ => false end.

(* expect_symbol *)
Definition expect_sym (y : sym) (s : astate) : outcome astate :=
  if is_sym y (peek s) then Ok (advance s) else Diag DkSyntax.

(* ---- symbol table --------------------------------------------------------- *)
Fixpoint st_remove (k : bytes) (st : symtab) : symtab :=
  match st with
  | [] => []
  | (k', e) :: st' => if bytes_eqb k' k then st_remove k st' else (k', e) :: st_remove k st'
  end.
Definition st_insert (k : bytes) (e : entry) (st : symtab) : symtab := (k, e) :: st_remove k st.
Definition defined (st : symtab) (k : bytes) : bool :=
  match lookup st k with Some _ => true | None => false end.

(* ---- expressions ----------------------------------------------------------- *)
Fixpoint node_names (ns : list node) : list bytes :=
  match ns with
  | [] => []
  | NLabel s :: r => s :: node_names r
  | NSizeOf s :: r => s :: node_names r
  | _ :: r => node_names r
  end.

Definition ctx_of (s : astate) : pctx := {| c_here := a_here s; c_ns := a_ns s; c_st := a_st s |}.

(* Assembler::expr *)
Definition expr (s : astate) : outcome (list node * astate) :=
  match pexpr (ctx_of s) (a_toks s) with
  | Ok (ns, r) => Ok (ns, w_refs (w_toks s r) (a_refs s ++ node_names ns))
  | Diag k => Diag k
  | Crash c => Crash c
  end.

(* Assembler::const_expr : the value must be known now *)
Definition const_expr (s : astate) : outcome (Z * astate) :=
  match expr s with
  | Ok (ns, s') =>
    match eval_top (a_st s') ns with
    | Val v => Ok (v, s')
    | Unsolved => Diag DkUnsolved
    | ECrash c => Crash c
    end
  | Diag k => Diag k
  | Crash c => Crash c
  end.

(* ---- the evaluate-now-or-defer operand emitters ---------------------------- *)
Inductive fkind := FByte | FHmem | FWord | FBranch.

Definition word_bytes (v : Z) : list N := [Z.to_N (u16 v mod 256); Z.to_N (u16 v / 256)].

Definition push_link (s : astate) (k : lkind) (ns : list node) (placeholder : list N) : astate :=
  w_data (w_links s (a_links s ++ [{| l_kind := k; l_off := length (a_data s); l_expr := ns |}]))
         (a_data s ++ placeholder).

(* expect_immediate / expect_hmem_immediate / expect_wide_immediate / expect_branch_immediate,
   given the already parsed expression *)
Definition emit_field (k : fkind) (s : astate) (ns : list node) : outcome astate :=
  let ns := match k with
            | FBranch => ns ++ [NValue (wrap32 (u32 (a_here s + 2))); NSub]
            | _ => ns
            end in
  match eval_top (a_st s) ns with
  | ECrash c => Crash c
  | Val v =>
    match k with
    | FByte => if fits_u8 v then Ok (w_data s (a_data s ++ [byte_of v])) else Diag DkRange
    | FHmem => if fits_u8 v then Ok (w_data s (a_data s ++ [byte_of v]))
               else if negb (fits_u16 v) then Diag DkRange
               else if (65280 <=? v) && (v <=? 65535) then Ok (w_data s (a_data s ++ [byte_of v]))
               else Diag DkRange
    | FWord => if fits_u16 v then Ok (w_data s (a_data s ++ word_bytes v)) else Diag DkRange
    | FBranch => if fits_i8 v then Ok (w_data s (a_data s ++ [byte_of v])) else Diag DkRange
    end
  | Unsolved =>
    match k with
    | FByte | FHmem => Ok (push_link s LByte ns [0%N])
    | FWord => Ok (push_link s LWord ns [0%N; 0%N])
    | FBranch => Ok (push_link s LSByte ns [0%N])
    end
  end.

Definition TOP : Z := 65536.

(* ---- decimal rendering of an i32 (format!("{}")) ---------------------------- *)
Fixpoint dec_digits (fuel : nat) (n : Z) (acc : bytes) : bytes :=
  match fuel with
  | O => acc
  | S f => let acc' := Z.to_N (48 + n mod 10) :: acc in
           if n / 10 =? 0 then acc' else dec_digits f (n / 10) acc'
  end.
Definition dec_string (v : Z) : bytes :=
  if v <? 0 then 45%N :: dec_digits 12 (- v) [] else dec_digits 12 v [].

Definition str_CODE : bytes := [67; 79; 68; 69]%N.
Definition str_code : bytes := [99; 111; 100; 101]%N.
Definition str_ADDR : bytes := [65; 68; 68; 82]%N.
Definition str_addr : bytes := [97; 100; 100; 114]%N.

Section WithArch.
  (* the architecture's instruction parser: consumes the operation token and its operands from
     the token stream and appends bytes / links (it does not move the current address) *)
  Variable arch_parse : N -> astate -> outcome astate.
  (* how @incbin resolves a file name to contents (the file manager) *)
  Variable incbin_file : bytes -> option (list N).

  (* label name in a definition position (label statement, @defl, @defn, @redef*, @undef) *)
  Definition def_name (s : astate) (k : labelkind) (v : bytes) : outcome bytes := qualify (a_ns s) k v.

  (* the data-list loop of @db (CODE segment) *)
  Fixpoint db_items (fuel : nat) (s : astate) : outcome astate :=
    match fuel with
    | O => Crash CkFuel
    | S f =>
      let after_item (s1 : astate) :=
        if is_sym SyComma (peek s1) then db_items f (advance s1) else Ok s1 in
      match peek s with
      | Some (TString str) =>
        let s1 := advance s in
        let n := Z.of_nat (length str) in
        if a_here s1 + n >? TOP then Diag DkTop
        else after_item (w_data (w_here s1 (a_here s1 + n)) (a_data s1 ++ str))
      | _ =>
        match expr s with
        | Ok (ns, s1) =>
          match eval_top (a_st s1) ns with
          | ECrash c => Crash c
          | Val v =>
            if negb (fits_u8 v) then Diag DkRange
            else if a_here s1 + 1 >? TOP then Diag DkTop
            else after_item (w_data (w_here s1 (a_here s1 + 1)) (a_data s1 ++ [byte_of v]))
          | Unsolved =>
            if a_here s1 + 1 >? TOP then Diag DkTop
            else after_item (push_link (w_here s1 (a_here s1 + 1)) LByte ns [0%N])
          end
        | Diag k => Diag k
        | Crash c => Crash c
        end
      end
    end.

  Fixpoint dw_items (fuel : nat) (s : astate) : outcome astate :=
    match fuel with
    | O => Crash CkFuel
    | S f =>
      let after_item (s1 : astate) :=
        if is_sym SyComma (peek s1) then dw_items f (advance s1) else Ok s1 in
      match expr s with
      | Ok (ns, s1) =>
        match eval_top (a_st s1) ns with
        | ECrash c => Crash c
        | Val v =>
          if negb (fits_u16 v) then Diag DkRange
          else if a_here s1 + 2 >? TOP then Diag DkTop
          else after_item (w_data (w_here s1 (a_here s1 + 2)) (a_data s1 ++ word_bytes v))
        | Unsolved =>
          if a_here s1 + 2 >? TOP then Diag DkTop
          else after_item (push_link (w_here s1 (a_here s1 + 2)) LWord ns [0%N; 0%N])
        end
      | Diag k => Diag k
      | Crash c => Crash c
      end
    end.

  (* @meta "k" "v" [, "k" "v"]* *)
  Fixpoint meta_pairs (fuel : nat) (s : astate) (acc : list (bytes * bytes)) : outcome astate :=
    match fuel with
    | O => Crash CkFuel
    | S f =>
      match a_toks s with
      | TString k :: TString v :: r =>
        let s1 := w_toks s r in
        let acc' := acc ++ [(k, v)] in
        if is_sym SyComma (peek s1) then meta_pairs f (advance s1) acc'
        else Ok (w_meta s1 acc')
      | _ => Diag DkSyntax
      end
    end.

  (* skipping a disabled @if block: count @if / @endif *)
  Fixpoint skip_if (level : nat) (ts : list token) : option (list token) :=
    match ts with
    | [] => None
    | TDir DIf :: r => skip_if (S level) r
    | TDir DEndIf :: r => match level with
                          | O => Some r            (* unreachable: level starts at 1 *)
                          | S O => Some r
                          | S l => skip_if l r
                          end
    | _ :: r => skip_if level r
    end.

  (* the body of @struct *)
  Definition size_meta (v : Z) : list (bytes * bytes) := [(SIZEOF_KEY, dec_string v)].

  Fixpoint struct_body (fuel : nat) (name : bytes) (size : Z) (s : astate) : outcome (Z * astate) :=
    match fuel with
    | O => Crash CkFuel
    | S f =>
      match a_toks s with
      | [] => Diag DkSyntax
      | (TNewline | TComment) :: r => struct_body f name size (w_toks s r)
      | TDir DDs :: r =>
        match r with
        | [] => Diag DkSyntax
        | _ => match const_expr (w_toks s r) with
               | Ok (pad, s1) => struct_body f name (wrap32 (size + pad)) s1
               | Diag k => Diag k
               | Crash c => Crash c
               end
        end
      | TDir DAlign :: r =>
        match r with
        | [] => Diag DkSyntax
        | _ => match const_expr (w_toks s r) with
               | Ok (al, s1) =>
                 if al <? 2 then Diag DkRange
                 else
                   (* (al - size.rem_euclid(al)) % al : no overflow, result in [0, al) *)
                   let padding := (al - size mod al) mod al in
                   struct_body f name (wrap32 (size + padding)) s1
               | Diag k => Diag k
               | Crash c => Crash c
               end
        end
      | TDir DEndStruct :: r => Ok (size, w_toks s r)
      | TLabel LkGlobal field :: r =>
        let direct := name ++ [46%N] ++ field in
        if defined (a_st s) direct then Diag DkRedefined
        else
          let s0 := w_toks s r in
          let s0 := if is_sym SyColon (peek s0) then advance s0 else s0 in
          match a_toks s0 with
          | [] => Diag DkSyntax
          | TDir DDb :: r2 =>
            struct_body f name (wrap32 (size + 1))
              (w_st (w_toks s0 r2) (st_insert direct {| e_sym := SValue size; e_meta := size_meta 1 |} (a_st s0)))
          | TDir DDw :: r2 =>
            struct_body f name (wrap32 (size + 2))
              (w_st (w_toks s0 r2) (st_insert direct {| e_sym := SValue size; e_meta := size_meta 2 |} (a_st s0)))
          | _ =>
            match const_expr s0 with
            | Ok (fs, s1) =>
              struct_body f name (wrap32 (size + fs))
                (w_st s1 (st_insert direct {| e_sym := SValue size; e_meta := size_meta fs |} (a_st s1)))
            | Diag k => Diag k
            | Crash c => Crash c
            end
          end
      | _ => Diag DkSyntax
      end
    end.

  (* the @defl/@defn/@redefl/@redefn family *)
  Definition define (s : astate) (check_dup : bool) (with_meta : bool) : outcome astate :=
    match a_toks s with
    | TLabel k v :: r =>
      match def_name s k v with
      | Ok direct =>
        if check_dup && defined (a_st s) direct then Diag DkRedefined
        else
          match expect_sym SyComma (w_toks s r) with
          | Ok s1 =>
            match expr s1 with
            | Ok (ns, s2) =>
              Ok (w_st s2 (st_insert direct
                     {| e_sym := SExpr ns; e_meta := if with_meta then a_meta s2 else [] |} (a_st s2)))
            | Diag k => Diag k
            | Crash c => Crash c
            end
          | Diag k => Diag k
          | Crash c => Crash c
          end
      | Diag k => Diag k
      | Crash c => Crash c
      end
    | _ => Diag DkSyntax
    end.

  (* one statement; the caller has checked that a token is available *)
  Definition statement (fuel : nat) (s : astate) : outcome astate :=
    match a_toks s with
    | [] => Ok s
    | (TNewline | TComment) :: r => Ok (w_toks s r)
    | TLabel k v :: r =>
      let s0 := match k with LkGlobal => w_ns s (Some v) | _ => s end in
      match def_name s0 k v with
      | Ok direct =>
        if defined (a_st s0) direct then Diag DkRedefined
        else
          let s1 := w_st (w_toks s0 r)
                      (st_insert direct {| e_sym := SValue (wrap32 (a_here s0)); e_meta := a_meta s0 |} (a_st s0)) in
          Ok (if is_sym SyColon (peek s1) then advance s1 else s1)
      | Diag d => Diag d
      | Crash c => Crash c
      end
    | TDir d :: r =>
      let s0 := w_toks s r in
      match d with
      | DOrg =>
        match const_expr s0 with
        | Ok (v, s1) => if fits_u16 v then Ok (w_here s1 v) else Diag DkRange
        | Diag k => Diag k
        | Crash c => Crash c
        end
      | DEcho =>
        match peek s0 with
        | Some (TString _) => Ok (advance s0)
        | Some _ => match const_expr s0 with
                    | Ok (_, s1) => Ok s1
                    | Diag k => Diag k
                    | Crash c => Crash c
                    end
        | None => Diag DkSyntax
        end
      | DDie =>
        match peek s0 with
        | None => Diag DkSyntax
        | Some (TString _) => Diag DkDie
        | Some _ => match const_expr s0 with
                    | Ok _ => Diag DkDie
                    | Diag k => Diag k
                    | Crash c => Crash c
                    end
        end
      | DAssert =>
        match expr s0 with
        | Ok (ns, s1) =>
          let after_msg (s2 : astate) :=
            match eval_top (a_st s2) ns with
            | ECrash c => Crash c
            | Val v => if v =? 0 then Diag DkAssert else Ok s2
            | Unsolved => Ok (w_links s2 (a_links s2 ++ [{| l_kind := LAssert; l_off := 0; l_expr := ns |}]))
            end in
          if is_sym SyComma (peek s1) then
            match a_toks (advance s1) with
            | TString _ :: r2 => after_msg (w_toks s1 r2)
            | _ => Diag DkSyntax
            end
          else after_msg s1
        | Diag k => Diag k
        | Crash c => Crash c
        end
      | DDefl => define s0 true true
      | DDefn => define s0 true false
      | DReDefl => define s0 false true
      | DReDefn => define s0 false false
      | DUnDef =>
        match a_toks s0 with
        | TLabel k v :: r2 =>
          match def_name s0 k v with
          | Ok direct => Ok (w_st (w_toks s0 r2) (st_remove direct (a_st s0)))
          | Diag k' => Diag k'
          | Crash c => Crash c
          end
        | _ => Diag DkSyntax
        end
      | DDb =>
        if a_code s0 then db_items fuel s0
        else if a_here s0 + 1 >? TOP then Diag DkTop else Ok (w_here s0 (a_here s0 + 1))
      | DDw =>
        if a_code s0 then dw_items fuel s0
        else if a_here s0 + 2 >? TOP then Diag DkTop else Ok (w_here s0 (a_here s0 + 2))
      | DDs =>
        match const_expr s0 with
        | Ok (size, s1) =>
          if negb (fits_u16 size) then Diag DkRange
          else if a_here s1 + size >? TOP then Diag DkTop
          else
            let s2 := w_here s1 (a_here s1 + size) in
            let n := Z.to_nat size in
            if a_code s2 then
              if is_sym SyComma (peek s2) then
                match expr (advance s2) with
                | Ok (ns, s3) =>
                  match eval_top (a_st s3) ns with
                  | ECrash c => Crash c
                  | Val v => if fits_u8 v then Ok (w_data s3 (a_data s3 ++ repeat (byte_of v) n))
                             else Diag DkRange
                  | Unsolved => Ok (push_link s3 (LSpace n) ns (repeat 0%N n))
                  end
                | Diag k => Diag k
                | Crash c => Crash c
                end
              else Ok (w_data s2 (a_data s2 ++ repeat 0%N n))
            else Ok s2
        | Diag k => Diag k
        | Crash c => Crash c
        end
      | DSegment =>
        match a_toks s0 with
        | TString v :: r2 =>
          if bytes_eqb v str_CODE || bytes_eqb v str_code then Ok (w_code (w_toks s0 r2) true)
          else if bytes_eqb v str_ADDR || bytes_eqb v str_addr then Ok (w_code (w_toks s0 r2) false)
          else Diag DkSyntax
        | _ => Diag DkSyntax
        end
      | DIncbin =>
        if negb (a_code s) then Diag DkSegment
        else
          match a_toks s0 with
          | TString v :: r2 =>
            match incbin_file v with
            | None => Diag DkFile
            | Some content =>
              let n := Z.of_nat (length content) in
              if a_here s0 + n >? TOP then Diag DkTop
              else Ok (w_data (w_here (w_toks s0 r2) (a_here s0 + n)) (a_data s0 ++ content))
            end
          | _ => Diag DkSyntax
          end
      | DStruct =>
        match a_toks s0 with
        | TLabel LkGlobal name :: r2 =>
          if defined (a_st s0) name then Diag DkRedefined
          else
            match struct_body fuel name 0 (w_ns (w_toks s0 r2) (Some name)) with
            | Ok (size, s1) =>
              Ok (w_st (w_ns s1 (a_ns s0)) (st_insert name {| e_sym := SValue size; e_meta := [] |} (a_st s1)))
            | Diag k => Diag k
            | Crash c => Crash c
            end
        | _ => Diag DkSyntax
        end
      | DAlign =>
        match peek s0 with
        | None => Diag DkSyntax
        | Some _ =>
          match const_expr s0 with
          | Ok (al, s1) =>
            if al <? 2 then Diag DkRange
            else
              let here := a_here s1 in
              let padding := (al - here mod al) mod al in
              if padding >? 65535 then Diag DkRange
              else if here + padding >? TOP then Diag DkTop
              else
                let s2 := w_here s1 (here + padding) in
                Ok (if a_code s2 then w_data s2 (a_data s2 ++ repeat 0%N (Z.to_nat padding)) else s2)
          | Diag k => Diag k
          | Crash c => Crash c
          end
        end
      | DMeta => meta_pairs fuel s0 []
      | DEndMeta => Ok (w_meta s0 [])
      | DIf =>
        match const_expr s0 with
        | Ok (v, s1) =>
          if v =? 0 then
            match skip_if 1 (a_toks s1) with
            | Some r2 => Ok (w_toks s1 r2)
            | None => Diag DkSyntax
            end
          else Ok (w_if s1 (S (a_if s1)))
        | Diag k => Diag k
        | Crash c => Crash c
        end
      | DEndIf =>
        match a_if s0 with
        | O => Diag DkSyntax
        | S n => Ok (w_if s0 n)
        end
      | _ => Diag DkSyntax
      end
    | TOp id :: _ =>
      if negb (a_code s) then Diag DkSegment
      else
        match arch_parse id s with
        | Ok s1 =>
          let here := a_here s1 + Z.of_nat (length (a_data s1) - length (a_data s)) in
          if here >? TOP then Diag DkTop else Ok (w_here s1 here)
        | Diag k => Diag k
        | Crash c => Crash c
        end
    | _ => Diag DkSyntax
    end.

  Fixpoint parse_all (fuel : nat) (s : astate) : outcome astate :=
    match fuel with
    | O => Crash CkFuel
    | S f =>
      match a_toks s with
      | [] => Ok s
      | _ => match statement fuel s with
             | Ok s' => parse_all f s'
             | Diag k => Diag k
             | Crash c => Crash c
             end
      end
    end.

  (* assemble + link: the bytes of the output file and the final symbol table *)
  Definition assemble (ts : list token) : outcome (list N * symtab) :=
    match parse_all (S (length ts)) (a_init ts) with
    | Ok s =>
      match link_all (a_st s) (a_refs s) (a_links s) (a_data s) with
      | Ok d => Ok (d, a_st s)
      | Diag k => Diag k
      | Crash c => Crash c
      end
    | Diag k => Diag k
    | Crash c => Crash c
    end.
End WithArch.
