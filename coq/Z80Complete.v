(* Z80Complete.v -- every instruction the Zilog decoder knows can be written in source. *)
From Az65 Require Import Base Token Expr ExprParse Linker Asm Arch ArchTables ArchSpec IsaZ80 Z80Facts.
From Az65.Gen Require Import Tables.

(* ---- completeness: every instruction of the decoder can be written --------------------- *)
Definition opnd_eqb (a b : opnd) : bool :=
  match a, b with
  | OReg x, OReg y | OCond x, OCond y | OInd x, OInd y | OImm8 x, OImm8 y | OPort x, OPort y
  | ORel x, ORel y | OLit x, OLit y => N.eqb x y
  | OIdx x d, OIdx y e => N.eqb x y && N.eqb d e
  | OImm16 a1 a2, OImm16 b1 b2 | OMem16 a1 a2, OMem16 b1 b2 => N.eqb a1 b1 && N.eqb a2 b2
  | _, _ => false
  end.
Fixpoint opnds_eqb (a b : list opnd) : bool :=
  match a, b with
  | [], [] => true
  | x :: a', y :: b' => opnd_eqb x y && opnds_eqb a' b'
  | _, _ => false
  end.

Definition zero_f : nat -> nat -> N := fun _ _ => 0%N.

Definition writable (mn : N) (ops : list opnd) : bool :=
  existsb (fun r => N.eqb (r_op r) mn &&
                    match read_z80 (z80_is_io (r_op r)) (r_pat r) 0 zero_f with
                    | Some o => opnds_eqb o ops
                    | None => false
                    end) z80_rows.

(* all first bytes 0..255 *)
Definition bytes256 : list N := map N.of_nat (seq 0 256).

(* every encoding shape of the documented instruction set (operand bytes zero): unprefixed,
   CB, ED, DD/FD where the prefix changes the instruction, DD CB / FD CB *)
Definition z80_encodings : list (list N) :=
  map (fun op => [op; 0; 0]%N) (filter (fun op => negb (N.eqb op 203 || N.eqb op 221 || N.eqb op 237 || N.eqb op 253)) bytes256)
  ++ map (fun op => [203; op]%N) bytes256
  ++ map (fun op => [237; op; 0; 0]%N) bytes256
  ++ map (fun op => [221; op; 0; 0]%N)
         (filter (fun op => negb (N.eqb op 203 || N.eqb op 221 || N.eqb op 237 || N.eqb op 253) &&
                            match dec_main mIX 1 op [0; 0]%N, dec_main None 1 op [0; 0]%N with
                            | Some (m1, o1, _), Some (m2, o2, _) => negb (N.eqb m1 m2 && opnds_eqb o1 o2)
                            | _, _ => false
                            end) bytes256)
  ++ map (fun op => [253; op; 0; 0]%N)
         (filter (fun op => negb (N.eqb op 203 || N.eqb op 221 || N.eqb op 237 || N.eqb op 253) &&
                            match dec_main mIY 1 op [0; 0]%N, dec_main None 1 op [0; 0]%N with
                            | Some (m1, o1, _), Some (m2, o2, _) => negb (N.eqb m1 m2 && opnds_eqb o1 o2)
                            | _, _ => false
                            end) bytes256)
  ++ map (fun op => [221; 203; 0; op]%N) bytes256
  ++ map (fun op => [253; 203; 0; op]%N) bytes256.

Definition z80_complete_b : bool :=
  forallb (fun e => match z80_decode e with
                    | Some (mn, ops, _) => writable mn ops
                    | None => true
                    end) z80_encodings.

Definition z80_decodable_count : nat :=
  length (filter (fun e => match z80_decode e with Some _ => true | None => false end) z80_encodings).

Theorem z80_complete : z80_complete_b = true.
Proof. vm_compute. reflexivity. Qed.

(* non-vacuity: how many encodings the decoder recognises *)
Example z80_decodable_many : z80_decodable_count = 800%nat.
Proof. vm_compute. reflexivity. Qed.
