(* ExprLocGenFacts.v -- the located expression parser follows the table that lib/gen_exprloc.py re-reads from
   src/assembler/mod.rs on every run (Gen/ExprLocArms.v): which location each of expr_prec_0 .. 10 returns, which
   each arm of expr_prec_11 returns, and which is handed to symtab.touch.  When an arm of the source is changed
   to return (or touch) another location, the first theorem stops compiling and the check of C14 reports it. *)
From Az65 Require Import Base Token Expr CSpec ExprFacts ExprParse Lexer ExprLoc ExprLocFacts.
From Az65.Gen Require Import ExprLocArms.

Definition model_arm_loc (a : parm) : locsrc := match a with ASizeOf => InnerLabel | _ => OwnToken end.
Definition model_touch_loc (a : parm) : option locsrc :=
  match a with ASizeOf => Some InnerLabel | ALabel => Some OwnToken | _ => None end.
Definition model_level_loc : list locsrc := repeat LeftOperand 11.

Theorem generated_loc_arms_are_model_arms :
  (forall a, gen_arm_loc a = model_arm_loc a) /\ (forall a, gen_touch_loc a = model_touch_loc a) /\
  gen_level_loc = model_level_loc.
Proof. split; [|split]; try (intros a; destruct a; reflexivity). reflexivity. Qed.

(* the arm of expr_prec_11 a token selects *)
Definition arm_of (t : token) : option parm :=
  match t with
  | TSym SyMinus => Some AMinus | TSym SyPlus => Some APlus | TSym SyBang => Some ABang
  | TSym SyTilde => Some ATilde | TSym SyLt => Some ALessThan | TSym SyGt => Some AGreaterThan
  | TSym SyLParen => Some AParenOpen
  | TNumber _ => Some ANumber | TDir DHere => Some AHere | TDir DSizeOf => Some ASizeOf
  | TLabel _ _ => Some ALabel
  | _ => None
  end.

(* what a table entry means for an arm entered on token (t, l) followed by r *)
Definition src_loc (s : locsrc) (l : loc) (r : list ltok) (l' : loc) : Prop :=
  match s with
  | OwnToken => l' = l
  | InnerLabel => exists t2 r2, r = (t2, l') :: r2
  | _ => False
  end.

Theorem lp11_follows_table f t l r e l' ms r' a :
  arm_of t = Some a -> lp11 f ((t, l) :: r) = LOk e l' ms r' -> src_loc (model_arm_loc a) l r l'.
Proof.
  intros Ha H. destruct (lp11_located f _ _ _ _ _ H) as [c [E [Hl _]]].
  destruct c as [|[t1 l1] c1]; [discriminate|]. cbn [app] in E. inversion E; subst.
  destruct t1; cbn [arm_of] in Ha; try discriminate.
  - inversion Ha; subst. cbn [model_arm_loc src_loc lead_loc] in *. inversion Hl; reflexivity.
  - destruct d; try discriminate; inversion Ha; subst; cbn [model_arm_loc src_loc lead_loc] in *.
    + inversion Hl; reflexivity.
    + destruct c1 as [|[t2 l2] c2]; [discriminate|]. inversion Hl; subst. cbn [app]. eexists _, _. reflexivity.
  - destruct s; try discriminate; inversion Ha; subst; cbn [model_arm_loc src_loc lead_loc] in *;
      inversion Hl; reflexivity.
  - inversion Ha; subst. cbn [model_arm_loc src_loc lead_loc] in *. inversion Hl; reflexivity.
Qed.

Theorem lp11_touch_follows_table f t l r e l' ms r' a s :
  arm_of t = Some a -> model_touch_loc a = Some s -> lp11 f ((t, l) :: r) = LOk e l' ms r' ->
  exists k n lm, ms = [(k, n, lm)] /\ src_loc s l r lm.
Proof.
  intros Ha Hs H. destruct f as [|f]; [discriminate|].
  destruct t; cbn [arm_of] in Ha; try discriminate.
  - inversion Ha; subst. discriminate.
  - destruct d; try discriminate; inversion Ha; subst; cbn [model_touch_loc] in Hs; try discriminate.
    inversion Hs; subst. cbn [lp11] in H.
    destruct r as [|[t2 l2] r2]; [discriminate|]. destruct t2; try discriminate.
    inversion H; subst. eexists _, _, _. split; [reflexivity|]. cbn [src_loc]. eexists _, _. reflexivity.
  - destruct s0; try discriminate; inversion Ha; subst; discriminate.
  - inversion Ha; subst. cbn [model_touch_loc] in Hs. inversion Hs; subst. cbn [lp11] in H.
    inversion H; subst. eexists _, _, _. split; reflexivity.
Qed.

(* `LeftOperand`: a binary level and the conditional level return what their left-most operand returned *)
Theorem level_returns_left_operand ops sub ts e l ms r :
  located sub -> lplevel ops sub ts = LOk e l ms r -> exists e0 ms0 r0, sub ts = LOk e0 l ms0 r0.
Proof.
  intros Hs H. unfold lplevel in H.
  destruct (sub ts) as [e0 l0 ms0 r0| |] eqn:Hsub; try discriminate.
  destruct (lbinloop_located _ _ _ Hs _ _ _ _ _ _ _ _ H) as [-> _]. eauto.
Qed.

Theorem conditional_returns_left_operand p ts e l ms r :
  lp0_of p ts = LOk e l ms r -> exists e0 ms0 r0, lchain levels p ts = LOk e0 l ms0 r0.
Proof.
  unfold lp0_of. intro H.
  destruct (lchain levels p ts) as [c lc msc r0| |] eqn:H1; try discriminate.
  assert (Hplain : LOk c lc msc r0 = LOk e l ms r -> exists e0 ms0 r1, LOk c lc msc r0 = LOk e0 l ms0 r1).
  { intro E. inversion E; subst. eauto. }
  destruct r0 as [|[t lt] r1]; [auto|].
  destruct t; auto. destruct s; auto.
  destruct (lchain levels p r1) as [a la msa r2| |]; try discriminate.
  destruct r2 as [|[t2 lt2] r3]; try discriminate.
  destruct t2; try discriminate. destruct s; try discriminate.
  destruct (lchain levels p r3) as [b lb msb r4| |]; try discriminate.
  inversion H; subst. eauto.
Qed.

Theorem every_level_is_left_operand : Forall (eq LeftOperand) gen_level_loc /\ length gen_level_loc = 11%nat.
Proof.
  destruct generated_loc_arms_are_model_arms as [_ [_ ->]]. split; [|reflexivity].
  unfold model_level_loc. cbn [repeat]. repeat constructor.
Qed.
