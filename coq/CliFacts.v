(* CliFacts.v -- (C15) *)
From Az65 Require Import Base Cli.

(* exit status 0 exactly when the output could be opened, the search paths were accepted, assembling and
   linking succeeded and every requested export succeeded; a message exactly otherwise *)
Theorem exit_zero_iff o paths img exports :
  e_success (run_main o paths img exports) = true <->
  (o <> Some false /\ paths = true /\ (exists d, img = ImgOk d) /\ forall b, In b exports -> b = true).
Proof.
  unfold run_main. split.
  - destruct o as [[|]|]; cbn; try discriminate;
      destruct paths; cbn; try discriminate; destruct img as [d|]; cbn; try discriminate;
      intro H; (split; [discriminate|]); (split; [reflexivity|]); (split; [exists d; reflexivity|]);
      rewrite forallb_forall in H; exact H.
  - intros [Ho [-> [[d ->] He]]].
    destruct o as [[|]|]; cbn; try (exfalso; apply Ho; reflexivity);
      apply forallb_forall; exact He.
Qed.

Theorem message_iff_failure o paths img exports :
  e_message (run_main o paths img exports) = negb (e_success (run_main o paths img exports)).
Proof.
  unfold run_main. destruct o as [[|]|]; cbn; try reflexivity; destruct paths; cbn; try reflexivity;
    destruct img; cbn; try reflexivity; rewrite Bool.negb_involutive; reflexivity.
Qed.

(* if assembling or linking fails, nothing is written: standard output is empty and the -o file, if it was
   opened at all, is empty *)
Theorem failed_image_writes_nothing o paths exports :
  let e := run_main o paths ImgFail exports in
  e_success e = false /\ e_stdout e = [] /\ (e_ofile e = None \/ e_ofile e = Some []).
Proof.
  unfold run_main. destruct o as [[|]|]; cbn; destruct paths; cbn; auto.
Qed.

(* on success the -o file holds exactly the bytes that go to standard output without -o *)
Theorem o_file_equals_stdout paths d exports :
  e_success (run_main None paths (ImgOk d) exports) = true ->
  e_ofile (run_main (Some true) paths (ImgOk d) exports) = Some (e_stdout (run_main None paths (ImgOk d) exports)) /\
  e_stdout (run_main (Some true) paths (ImgOk d) exports) = [] /\
  e_success (run_main (Some true) paths (ImgOk d) exports) = true.
Proof.
  unfold run_main. cbn. destruct paths; cbn; [|discriminate]. intro H. rewrite H. auto.
Qed.

(* the global options may stand on either side of the sub-command: with all of them on one side, before
   the sub-command or after its arguments, the configuration is the same *)
Definition global_free (l : list arg) : Prop := forall x, In x l -> is_global x = false.
Definition all_global (l : list arg) : Prop := forall x, In x l -> is_global x = true.

Lemma flat_map_nil {A B} (f : A -> list B) l : (forall x, In x l -> f x = []) -> flat_map f l = [].
Proof.
  induction l as [|x l IH]; intro H; [reflexivity|]. cbn.
  rewrite (H x (or_introl eq_refl)). apply IH. intros y Hy. apply H. right. exact Hy.
Qed.
Lemma outs_free l : global_free l -> outs l = [].
Proof. intro H. apply flat_map_nil. intros x Hx. pose proof (H x Hx). destruct x; try discriminate; reflexivity. Qed.
Lemma dbgs_free l : global_free l -> dbgs l = [].
Proof. intro H. apply flat_map_nil. intros x Hx. pose proof (H x Hx). destruct x; try discriminate; reflexivity. Qed.
Lemma incs_free l : global_free l -> incs l = [].
Proof. intro H. apply flat_map_nil. intros x Hx. pose proof (H x Hx). destruct x; try discriminate; reflexivity. Qed.

Lemma sub_args_globals G : all_global G -> forall l f e, sub_args (l ++ G) f e = sub_args l f e.
Proof.
  intro HG.
  assert (H0 : forall f e, sub_args G f e = Some (f, e)).
  { induction G as [|g G IH]; intros f e; [reflexivity|].
    pose proof (HG g (or_introl eq_refl)) as Hg.
    destruct g; try discriminate; cbn; apply IH; intros y Hy; apply HG; right; exact Hy. }
  induction l as [|x l IH]; intros f e; cbn [app].
  - rewrite H0. reflexivity.
  - destruct x; cbn; auto; [destruct f; auto|destruct e; auto].
Qed.

Lemma no_sub_stuff_globals b G : all_global G -> no_sub_stuff (b ++ G) = no_sub_stuff b.
Proof.
  intro HG. unfold no_sub_stuff. rewrite forallb_app.
  replace (forallb _ G) with true; [apply Bool.andb_true_r|].
  symmetry. apply forallb_forall. intros x Hx. pose proof (HG x Hx). destruct x; try discriminate; reflexivity.
Qed.

Theorem global_option_placement b a s G :
  global_free b -> global_free s -> all_global G ->
  parse (b ++ G) a s = parse b a (s ++ G).
Proof.
  intros Hb Hs HG. unfold parse.
  rewrite no_sub_stuff_globals by exact HG.
  destruct (no_sub_stuff b); cbn [negb]; [|reflexivity].
  rewrite sub_args_globals by exact HG.
  unfold outs, dbgs, incs in *. rewrite !flat_map_app.
  fold (outs b) (outs s) (outs G) (dbgs b) (dbgs s) (dbgs G) (incs b) (incs s) (incs G).
  rewrite (outs_free b Hb), (outs_free s Hs), (dbgs_free b Hb), (dbgs_free s Hs), (incs_free b Hb), (incs_free s Hs).
  cbn [app].
  assert (L : forall x, level2 x (Some None) = level2 (Some None) x).
  { intros [[x|]|]; reflexivity. }
  cbn [pick]. rewrite (L (pick (outs G))), (L (pick (dbgs G))).
  destruct (incs G); reflexivity.
Qed.

(* non-vacuity: `az65 -o out z80 f.asm` and `az65 z80 f.asm -o out` *)
Example placement_example :
  parse [AOut [111%N]] 0%N [AFile [102%N]] = parse [] 0%N [AFile [102%N]; AOut [111%N]] /\
  parse [] 0%N [AFile [102%N]; AOut [111%N]] =
  Some {| c_arch := 0%N; c_file := [102%N]; c_out := Some [111%N]; c_incs := []; c_dbg := None; c_exp := None |}.
Proof. split; reflexivity. Qed.
