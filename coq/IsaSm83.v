(* IsaSm83.v -- specification: the SM83 / LR35902 (Game Boy CPU) opcode map as a decoder written
   from the map's octal structure.  244 defined unprefixed opcodes + 256 CB-prefixed.  Independent of
   the assembler model. *)
From Az65 Require Import Base.
From Az65.Gen Require Import Tables.
Local Open Scope N_scope.

Inductive gopnd :=
| GReg (r : N)
| GCond (f : N)              (* nz z nc ; carry is written with the register name c *)
| GInd (r : N)               (* (hl) (bc) (de) (c) *)
| GIndInc                    (* (hl+) *)
| GIndDec                    (* (hl-) *)
| GImm8 (n : N)
| GImm16 (lo hi : N)
| GMem16 (lo hi : N)         (* (nn) *)
| GHigh (n : N)              (* ldh: ($FF00 + n) *)
| GSpRel (e : N)             (* sp+e *)
| GRel (e : N)
| GLit (v : N).

Definition gdec := option (N * list gopnd * nat).
Definition gret (mn : N) (ops : list gopnd) (len : N) : gdec := Some (mn, ops, N.to_nat len).

Definition gA := sm83_reg_A. Definition gHL := sm83_reg_HL. Definition gSP := sm83_reg_SP.
Definition gBC := sm83_reg_BC. Definition gDE := sm83_reg_DE. Definition gAF := sm83_reg_AF.
Definition gC := sm83_reg_C.

Definition g8 (c : N) : gopnd :=
  match c with
  | 0 => GReg sm83_reg_B | 1 => GReg sm83_reg_C | 2 => GReg sm83_reg_D | 3 => GReg sm83_reg_E
  | 4 => GReg sm83_reg_H | 5 => GReg sm83_reg_L | 6 => GInd gHL | _ => GReg gA
  end.
Definition grp (p : N) : N := match p with 0 => gBC | 1 => gDE | 2 => gHL | _ => gSP end.
Definition grp2 (p : N) : N := match p with 0 => gBC | 1 => gDE | 2 => gHL | _ => gAF end.
Definition gcc (y : N) : gopnd :=
  match y with 0 => GCond sm83_flag_NZ | 1 => GCond sm83_flag_Z | 2 => GCond sm83_flag_NC | _ => GReg gC end.

Definition galu (y : N) (src : gopnd) : N * list gopnd :=
  match y with
  | 0 => (sm83_op_Add, [GReg gA; src]) | 1 => (sm83_op_Adc, [GReg gA; src])
  | 2 => (sm83_op_Sub, [src]) | 3 => (sm83_op_Sbc, [GReg gA; src])
  | 4 => (sm83_op_And, [src]) | 5 => (sm83_op_Xor, [src])
  | 6 => (sm83_op_Or, [src]) | _ => (sm83_op_Cp, [src])
  end.

Definition grot (y : N) : N :=
  match y with
  | 0 => sm83_op_Rlc | 1 => sm83_op_Rrc | 2 => sm83_op_Rl | 3 => sm83_op_Rr
  | 4 => sm83_op_Sla | 5 => sm83_op_Sra | 6 => sm83_op_Swap | _ => sm83_op_Srl
  end.

Definition gdec_cb (op : N) : gdec :=
  let x := op / 64 in let y := (op / 8) mod 8 in let z := op mod 8 in
  match x with
  | 0 => gret (grot y) [g8 z] 2
  | 1 => gret sm83_op_Bit [GLit y; g8 z] 2
  | 2 => gret sm83_op_Res [GLit y; g8 z] 2
  | _ => gret sm83_op_Set [GLit y; g8 z] 2
  end.

Definition sm83_decode (bs : list N) : gdec :=
  match bs with
  | [] => None
  | 203 :: op :: _ => gdec_cb op
  | op :: rest =>
    let x := op / 64 in let y := (op / 8) mod 8 in let z := op mod 8 in
    let p := y / 2 in let q := y mod 2 in
    let imm8 (k : N -> gdec) := match rest with n :: _ => k n | [] => None end in
    let imm16 (k : N -> N -> gdec) := match rest with lo :: hi :: _ => k lo hi | _ => None end in
    match x with
    | 0 =>
      match z with
      | 0 => match y with
             | 0 => gret sm83_op_Nop [] 1
             | 1 => imm16 (fun lo hi => gret sm83_op_Ld [GMem16 lo hi; GReg gSP] 3)
             | 2 => imm8 (fun n => if n =? 0 then gret sm83_op_Stop [] 2 else None)
             | 3 => imm8 (fun e => gret sm83_op_Jr [GRel e] 2)
             | _ => imm8 (fun e => gret sm83_op_Jr [gcc (y - 4); GRel e] 2)
             end
      | 1 => if q =? 0 then imm16 (fun lo hi => gret sm83_op_Ld [GReg (grp p); GImm16 lo hi] 3)
             else gret sm83_op_Add [GReg gHL; GReg (grp p)] 1
      | 2 => let m := match p with 0 => GInd gBC | 1 => GInd gDE | 2 => GIndInc | _ => GIndDec end in
             if q =? 0 then gret sm83_op_Ld [m; GReg gA] 1 else gret sm83_op_Ld [GReg gA; m] 1
      | 3 => gret (if q =? 0 then sm83_op_Inc else sm83_op_Dec) [GReg (grp p)] 1
      | 4 => gret sm83_op_Inc [g8 y] 1
      | 5 => gret sm83_op_Dec [g8 y] 1
      | 6 => imm8 (fun n => gret sm83_op_Ld [g8 y; GImm8 n] 2)
      | _ => gret (match y with
                   | 0 => sm83_op_Rlca | 1 => sm83_op_Rrca | 2 => sm83_op_Rla | 3 => sm83_op_Rra
                   | 4 => sm83_op_Daa | 5 => sm83_op_Cpl | 6 => sm83_op_Scf | _ => sm83_op_Ccf
                   end) [] 1
      end
    | 1 => if (y =? 6) && (z =? 6) then gret sm83_op_Halt [] 1
           else gret sm83_op_Ld [g8 y; g8 z] 1
    | 2 => let (mn, ops) := galu y (g8 z) in gret mn ops 1
    | _ =>
      match z with
      | 0 => match y with
             | 4 => imm8 (fun n => gret sm83_op_Ldh [GHigh n; GReg gA] 2)
             | 5 => imm8 (fun e => gret sm83_op_Add [GReg gSP; GImm8 e] 2)
             | 6 => imm8 (fun n => gret sm83_op_Ldh [GReg gA; GHigh n] 2)
             | 7 => imm8 (fun e => gret sm83_op_Ld [GReg gHL; GSpRel e] 2)
             | _ => gret sm83_op_Ret [gcc y] 1
             end
      | 1 => if q =? 0 then gret sm83_op_Pop [GReg (grp2 p)] 1
             else match p with
                  | 0 => gret sm83_op_Ret [] 1
                  | 1 => gret sm83_op_Reti [] 1
                  | 2 => gret sm83_op_Jp [GReg gHL] 1
                  | _ => gret sm83_op_Ld [GReg gSP; GReg gHL] 1
                  end
      | 2 => match y with
             | 4 => gret sm83_op_Ld [GInd gC; GReg gA] 1
             | 5 => imm16 (fun lo hi => gret sm83_op_Ld [GMem16 lo hi; GReg gA] 3)
             | 6 => gret sm83_op_Ld [GReg gA; GInd gC] 1
             | 7 => imm16 (fun lo hi => gret sm83_op_Ld [GReg gA; GMem16 lo hi] 3)
             | _ => imm16 (fun lo hi => gret sm83_op_Jp [gcc y; GImm16 lo hi] 3)
             end
      | 3 => match y with
             | 0 => imm16 (fun lo hi => gret sm83_op_Jp [GImm16 lo hi] 3)
             | 6 => gret sm83_op_Di [] 1
             | 7 => gret sm83_op_Ei [] 1
             | _ => None
             end
      | 4 => if y <? 4 then imm16 (fun lo hi => gret sm83_op_Call [gcc y; GImm16 lo hi] 3) else None
      | 5 => if q =? 0 then gret sm83_op_Push [GReg (grp2 p)] 1
             else if p =? 0 then imm16 (fun lo hi => gret sm83_op_Call [GImm16 lo hi] 3) else None
      | 6 => imm8 (fun n => let (mn, ops) := galu y (GImm8 n) in gret mn ops 2)
      | _ => gret sm83_op_Rst [GLit (y * 8)] 1
      end
    end
  end.
