(* QualFacts.v -- a local label is exactly shorthand for Global.local: in every position of the
   model where a label token is interpreted, the local spelling under namespace g and the direct
   spelling g ++ .name are interchangeable. *)
From Az65 Require Import Base Token Expr CSpec ExprFacts ExprParse Linker Asm AsmFacts SymFacts.

(* all positions interpret label tokens through this one function *)
Lemma qualify_local_is_direct g s :
  qualify (Some g) LkLocal s = qualify (Some g) LkDirect (g ++ s).
Proof. reflexivity. Qed.

Lemma qualify_local_needs_scope s : qualify None LkLocal s = Diag DkNoScope.
Proof. reflexivity. Qed.

(* rewriting every local spelling of a parse tree to its qualified spelling *)
Fixpoint qual_pexp (g : bytes) (e : pexp) : pexp :=
  match e with
  | PSizeOf LkLocal s => PSizeOf LkDirect (g ++ s)
  | PLabel LkLocal s => PLabel LkDirect (g ++ s)
  | PIsDef LkLocal s => PIsDef LkDirect (g ++ s)
  | PUn o a => PUn o (qual_pexp g a)
  | PBin o a b => PBin o (qual_pexp g a) (qual_pexp g b)
  | PTern c a b => PTern (qual_pexp g c) (qual_pexp g a) (qual_pexp g b)
  | e => e
  end.

(* ... never changes what the expression lowers to *)
Theorem resolve_qualified cx g e :
  c_ns cx = Some g -> resolve cx (qual_pexp g e) = resolve cx e.
Proof.
  intro Hns. induction e as [v| |k s|k s|k s|o a IHa|o a IHa b IHb|c IHc a IHa b IHb];
    cbn [qual_pexp resolve]; try reflexivity.
  - destruct k; cbn [resolve]; rewrite ?Hns; reflexivity.
  - destruct k; cbn [resolve]; rewrite ?Hns; reflexivity.
  - destruct k; cbn [resolve]; rewrite ?Hns; reflexivity.
  - rewrite IHa. reflexivity.
  - rewrite IHa, IHb. reflexivity.
  - rewrite IHc, IHa, IHb. reflexivity.
Qed.

(* the token-level rewrite *)
Definition qual_tok (g : bytes) (t : token) : token :=
  match t with
  | TLabel LkLocal s => TLabel LkDirect (g ++ s)
  | t => t
  end.

Section Stmt.
  Variable arch_parse : N -> astate -> outcome astate.
  Variable incbin_file : bytes -> option (list N).
  Notation statement := (statement arch_parse incbin_file).

  (* label statements *)
  Theorem label_stmt_qualified fuel s g v r :
    a_ns s = Some g ->
    statement fuel (w_toks s (TLabel LkLocal v :: r)) =
    statement fuel (w_toks s (TLabel LkDirect (g ++ v) :: r)).
  Proof.
    intro Hns. unfold Asm.statement. cbn [a_toks w_toks]. unfold def_name. cbn [a_ns w_toks].
    rewrite Hns. reflexivity.
  Qed.

  (* @defl / @defn / @redefl / @redefn *)
  Theorem define_qualified s g v r dup wm :
    a_ns s = Some g ->
    define (w_toks s (TLabel LkLocal v :: r)) dup wm =
    define (w_toks s (TLabel LkDirect (g ++ v) :: r)) dup wm.
  Proof.
    intro Hns. unfold define. cbn [a_toks w_toks]. unfold def_name. cbn [a_ns w_toks].
    rewrite Hns. reflexivity.
  Qed.

  (* @undef *)
  Theorem undef_qualified fuel s g v r :
    a_ns s = Some g ->
    statement fuel (w_toks s (TDir DUnDef :: TLabel LkLocal v :: r)) =
    statement fuel (w_toks s (TDir DUnDef :: TLabel LkDirect (g ++ v) :: r)).
  Proof.
    intro Hns. unfold Asm.statement. cbn [a_toks w_toks]. unfold def_name. cbn [a_ns w_toks].
    rewrite Hns. reflexivity.
  Qed.

  (* a local name before any global label is rejected, in every defining position *)
  Theorem local_without_scope_rejected fuel s v r :
    a_ns s = None ->
    statement fuel (w_toks s (TLabel LkLocal v :: r)) = Diag DkNoScope /\
    statement fuel (w_toks s (TDir DUnDef :: TLabel LkLocal v :: r)) = Diag DkNoScope /\
    (forall dup wm, define (w_toks s (TLabel LkLocal v :: r)) dup wm = Diag DkNoScope).
  Proof.
    intro Hns. repeat split; intros; unfold Asm.statement, define; cbn [a_toks w_toks];
      unfold def_name; cbn [a_ns w_toks]; rewrite Hns; reflexivity.
  Qed.
End Stmt.

(* ... and in every reading position *)
Theorem local_use_without_scope_rejected cx s :
  c_ns cx = None ->
  resolve cx (PLabel LkLocal s) = Diag DkNoScope /\
  resolve cx (PSizeOf LkLocal s) = Diag DkNoScope /\
  resolve cx (PIsDef LkLocal s) = Diag DkNoScope.
Proof. intro H. cbn [resolve]. rewrite H. repeat split. Qed.

(* the same local name under two different global labels denotes two different symbols *)
Theorem independent_scopes g1 g2 s :
  g1 <> g2 -> length g1 = length g2 \/ True ->
  qualify (Some g1) LkLocal s = Ok (g1 ++ s) /\ qualify (Some g2) LkLocal s = Ok (g2 ++ s) /\
  (g1 ++ s <> g2 ++ s).
Proof.
  intros Hne _. repeat split. intro E. apply Hne. eapply app_inv_tail. exact E.
Qed.
