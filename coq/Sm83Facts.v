(* Sm83Facts.v -- the SM83 rows against the LR35902 decoder: soundness for all operand bytes
   (with the known finding `cp r` carved out and refuted), and reachability of the opcode map. *)
From Az65 Require Import Base Token Expr ExprParse Linker Asm Arch ArchTables ArchSpec IsaSm83.
From Az65.Gen Require Import Tables.

Fixpoint read_sm83 (p : list pat) (slot : nat) (f : nat -> nat -> N) : option (list gopnd) :=
  match p with
  | [] => Some []
  | PSym SyComma :: r => read_sm83 r slot f
  | PSym SyLParen :: PReg x :: PSym SyPlus :: PSym SyRParen :: r => option_map (cons GIndInc) (read_sm83 r slot f)
  | PSym SyLParen :: PReg x :: PSym SyMinus :: PSym SyRParen :: r => option_map (cons GIndDec) (read_sm83 r slot f)
  | PSym SyLParen :: PReg x :: PSym SyRParen :: r => option_map (cons (GInd x)) (read_sm83 r slot f)
  (* `(expr)` where the operand is a byte immediate: accepted as a parenthesised immediate *)
  | PSym SyLParen :: PExpr FByte :: PSym SyRParen :: r => option_map (cons (GImm8 (f slot 0%nat))) (read_sm83 r (S slot) f)
  | PSym SyLParen :: PExpr FWord :: PSym SyRParen :: r =>
    option_map (cons (GMem16 (f slot 0%nat) (f slot 1%nat))) (read_sm83 r (S slot) f)
  | PSym SyLParen :: PExpr FHmem :: PSym SyRParen :: r => option_map (cons (GHigh (f slot 0%nat))) (read_sm83 r (S slot) f)
  | PReg x :: PSym SyPlus :: PExpr FByte :: r => option_map (cons (GSpRel (f slot 0%nat))) (read_sm83 r (S slot) f)
  | PReg x :: r => option_map (cons (GReg x)) (read_sm83 r slot f)
  | PFlag c :: r => option_map (cons (GCond c)) (read_sm83 r slot f)
  | PExpr FByte :: r => option_map (cons (GImm8 (f slot 0%nat))) (read_sm83 r (S slot) f)
  | PExpr FWord :: r => option_map (cons (GImm16 (f slot 0%nat) (f slot 1%nat))) (read_sm83 r (S slot) f)
  | PExpr FBranch :: r => option_map (cons (GRel (f slot 0%nat))) (read_sm83 r (S slot) f)
  | PSel v :: r => option_map (cons (GLit (Z.to_N v))) (read_sm83 r slot f)
  | _ => None
  end.

(* the known finding: `cp r` / `cp (hl)` *)
Definition is_cp_reg (r : row) : bool :=
  N.eqb (r_op r) sm83_op_Cp &&
  match r_pat r with
  | [PReg _] => true
  | [PSym SyLParen; PReg _; PSym SyRParen] => true
  | _ => false
  end.

(* dialect: az65 pads `halt` with a nop (the hardware's halt bug), encoding it as 76 00 *)
Definition halt_padded (r : row) (bs : list N) : Prop := r_op r = sm83_op_Halt /\ bs = [118; 0]%N.

Definition sm83_row_ok (r : row) : Prop :=
  forall f, exists ops len,
    read_sm83 (r_pat r) 0 f = Some ops /\
    sm83_decode (inst r f) = Some (r_op r, ops, len) /\
    (len = length (inst r f) \/ halt_padded r (inst r f)).

Definition sm83_rows_checked : list row := filter (fun r => negb (is_cp_reg r)) sm83_rows.
