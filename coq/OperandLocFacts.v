(* OperandLocFacts.v -- the k-th operand of a @db / @dw list is located at its own first token (for `@sizeof LABEL` the
   label): whatever the k operands before it are - strings, expressions of any shape and length, over any number of
   continued lines - none of their tokens is taken for it (C14). *)
From Az65 Require Import Base Token Expr CSpec ExprFacts ExprParse Lexer ExprLoc ExprLocFacts OperandLoc.

Lemma after_operand_suffix ts r : after_operand ts = Some r -> exists pre, ts = pre ++ r /\ pre <> [].
Proof.
  unfold after_operand. intro H.
  destruct ts as [|[t l] ts'].
  - (* no token: lptree [] is a diagnostic *)
    exfalso. revert H. vm_compute. discriminate.
  - assert (Hexpr : match (match lptree ((t, l) :: ts') with LOk _ _ _ r0 => Some r0 | _ => None end) with
                    | Some ((TSym SyComma, _) :: r1) => Some r1 | _ => None end = Some r ->
                    exists pre, (t, l) :: ts' = pre ++ r /\ pre <> []).
    { intro H0. destruct (lptree ((t, l) :: ts')) as [e l0 ms r0| |] eqn:E; try discriminate.
      destruct (lptree_located _ _ _ _ _ E) as [c [Hc _]].
      destruct r0 as [|[t1 l1] r1]; try discriminate. destruct t1; try discriminate. destruct s; try discriminate.
      inversion H0; subst. exists (c ++ [(TSym SyComma, l1)]). split.
      - rewrite Hc. rewrite <- app_assoc. reflexivity.
      - intro Hn. apply app_eq_nil in Hn. destruct Hn as [_ Hn]. discriminate. }
    destruct t; try exact (Hexpr H).
    (* a string literal *)
    destruct ts' as [|[t1 l1] r1]; try discriminate. destruct t1; try discriminate. destruct s0; try discriminate.
    inversion H; subst. exists [(TString s, l); (TSym SyComma, l1)]. split; [reflexivity|discriminate].
Qed.

Lemma skip_operands_suffix k : forall ts r, skip_operands k ts = Some r -> exists pre, ts = pre ++ r.
Proof.
  induction k as [|k IH]; intros ts r H; cbn [skip_operands] in H.
  - inversion H; subst. exists []. reflexivity.
  - destruct (after_operand ts) as [r0|] eqn:E; try discriminate.
    destruct (after_operand_suffix _ _ E) as [p0 [-> _]].
    destruct (IH _ _ H) as [p1 ->]. exists (p0 ++ p1). rewrite app_assoc. reflexivity.
Qed.

(* the k-th operand is located at the first token of its own text, which comes after everything the k operands before
   it were made of *)
Theorem operand_located_at_its_own_first_token k ts e l ms r :
  loperand k ts = Some (LOk e l ms r) ->
  exists before c, ts = before ++ c ++ r /\ lead_loc c = Some l /\ Forall (ment_in c) ms /\
                   skip_operands k ts = Some (c ++ r).
Proof.
  unfold loperand. intro H.
  destruct (skip_operands k ts) as [r0|] eqn:E; try discriminate.
  inversion H as [H1]. destruct (skip_operands_suffix _ _ _ E) as [before ->].
  destruct (lptree_located _ _ _ _ _ H1) as [c [-> [Hl Hm]]].
  exists before, c. auto.
Qed.
