(* Export.v -- model of the debug exporters (src/debug.rs, src/sm83/sym.rs, src/mos6502/namelist.rs)
   as functions from the final symbol table to the set of lines / records they write.  Hash-map
   iteration order is not modelled: outputs are compared as multisets. *)
From Az65 Require Import Base Token Expr ExprFacts Asm.
Local Open Scope Z_scope.

Definition final_value (st : symtab) (e : entry) : option Z :=
  match e_sym e with
  | SValue v => Some v
  | SExpr ex => match eval_top st ex with Val v => Some v | _ => None end
  end.

(* -g : every symbol, its final value, its metadata *)
Record jsym := { j_name : bytes; j_value : Z; j_meta : list (bytes * bytes) }.

Fixpoint export_json_go (st0 st : symtab) : option (list jsym) :=
  match st with
  | [] => Some []
  | (k, e) :: r =>
    match final_value st0 e, export_json_go st0 r with
    | Some v, Some l => Some ({| j_name := k; j_value := v; j_meta := e_meta e |} :: l)
    | _, _ => None                      (* "The value of .. could not be solved" *)
    end
  end.
Definition export_json (st : symtab) : option (list jsym) := export_json_go st st.

Definition has_pair (k v : bytes) (m : list (bytes * bytes)) : bool :=
  existsb (fun p => bytes_eqb (fst p) k && bytes_eqb (snd p) v) m.

Definition s_ID : bytes := [73; 68]%N.
Definition s_BANK : bytes := [66; 65; 78; 75]%N.
Definition s_WRAM : bytes := [87; 82; 65; 77]%N.
Definition s_SRAM : bytes := [83; 82; 65; 77]%N.
Definition s_VRAM : bytes := [86; 82; 65; 77]%N.
Definition s_HRAM : bytes := [72; 82; 65; 77]%N.
Definition s_ROM : bytes := [82; 79; 77]%N.
Definition s_ZP : bytes := [90; 80]%N.
Definition s_RAM : bytes := [82; 65; 77]%N.
Definition s_PRG : bytes := [80; 82; 71]%N.

(* usize::from_str_radix(value, 16): optional '+', hex digits either case, non-empty *)
Definition hexval (c : N) : option Z :=
  let z := Z.of_N c in
  if (48 <=? z) && (z <=? 57) then Some (z - 48)
  else if (97 <=? z) && (z <=? 102) then Some (z - 87)
  else if (65 <=? z) && (z <=? 70) then Some (z - 55)
  else None.
Fixpoint hex_go (acc : Z) (l : bytes) : option Z :=
  match l with
  | [] => Some acc
  | c :: r => match hexval c with
              | Some d => if acc * 16 + d <? 18446744073709551616 then hex_go (acc * 16 + d) r else None
              | None => None
              end
  end.
Definition parse_bank (s : bytes) : option Z :=
  match s with
  | [] => None
  | 43%N :: [] => None
  | 43%N :: r => hex_go 0 r
  | _ => hex_go 0 s
  end.

(* the BANK pair that wins is the last one in (sorted) metadata order whose value parses *)
Fixpoint bank_of (m : list (bytes * bytes)) (acc : option Z) : option Z :=
  match m with
  | [] => acc
  | (k, v) :: r => if bytes_eqb k s_BANK
                   then match parse_bank v with Some b => bank_of r (Some b) | None => bank_of r acc end
                   else bank_of r acc
  end.

(* one line of a .sym / .nl file: (bank or None, 16-bit value, name) in a given category *)
Record sline := { sl_cat : N; sl_bank : option Z; sl_value : Z; sl_name : bytes }.

Definition cat_HRAM : N := 0%N. Definition cat_ROM : N := 1%N. Definition cat_WRAM : N := 2%N.
Definition cat_SRAM : N := 3%N. Definition cat_VRAM : N := 4%N.
Definition cat_RAMNL : N := 5%N. Definition cat_PRG : N := 6%N.

Definition sym_lines_of (name : bytes) (v : Z) (m : list (bytes * bytes)) : list sline :=
  let bank := bank_of m None in
  let v16 := u16 v in
  (if has_pair s_ID s_HRAM m then [{| sl_cat := cat_HRAM; sl_bank := None; sl_value := v16; sl_name := name |}] else []) ++
  match bank with
  | None => []
  | Some b =>
    (if has_pair s_ID s_ROM m then [{| sl_cat := cat_ROM; sl_bank := Some b; sl_value := v16; sl_name := name |}] else []) ++
    (if has_pair s_ID s_WRAM m then [{| sl_cat := cat_WRAM; sl_bank := Some b; sl_value := v16; sl_name := name |}] else []) ++
    (if has_pair s_ID s_SRAM m then [{| sl_cat := cat_SRAM; sl_bank := Some b; sl_value := v16; sl_name := name |}] else []) ++
    (if has_pair s_ID s_VRAM m then [{| sl_cat := cat_VRAM; sl_bank := Some b; sl_value := v16; sl_name := name |}] else [])
  end.

Definition nl_lines_of (name : bytes) (v : Z) (m : list (bytes * bytes)) : list sline :=
  let bank := bank_of m None in
  let v16 := u16 v in
  (if has_pair s_ID s_ZP m || has_pair s_ID s_RAM m
   then [{| sl_cat := cat_RAMNL; sl_bank := None; sl_value := v16; sl_name := name |}] else []) ++
  match bank with
  | Some b => if has_pair s_ID s_PRG m then [{| sl_cat := cat_PRG; sl_bank := Some b; sl_value := v16; sl_name := name |}] else []
  | None => []
  end.

Definition export_lines (per : bytes -> Z -> list (bytes * bytes) -> list sline) (st : symtab) : option (list sline) :=
  match export_json st with
  | Some js => Some (flat_map (fun j => per (j_name j) (j_value j) (j_meta j)) js)
  | None => None
  end.

Definition export_sym := export_lines sym_lines_of.
Definition export_nl := export_lines nl_lines_of.
